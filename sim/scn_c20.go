package memberlist

// C20 — lifecycle safety: Leave/Shutdown and the query API in any order and interleaving.

import (
	"fmt"
	"runtime"
	"strings"
	"testing/synctest"
	"time"
)

func init() {
	register(&Scenario{Name: "C20", Gen: genC20, Exec: execC20})
}

func genC20(c *Ctx) *Plan {
	r := c.R
	p := &Plan{N: r.rangeI(1, 4), Cfg: genCfg(r), P: map[string]int64{}}
	p.Cfg.GossipToDeadMs = r.pick(500, 1000, 2000) // left-and-reaped must be reachable
	p.Cfg.ProbeIntervalMs = r.pick(200, 500, 1000)
	p.Cfg.ProbeTimeoutMs = p.Cfg.ProbeIntervalMs / r.pick(2, 4)
	p.Cfg.PushPullMs = r.pick(1000, 2000)
	p.Cfg.HandoffDepth = 1024
	n := p.N
	p.Net.MinDelay = 1000
	p.Net.MaxDelay = int64(ms(p.Cfg.ProbeTimeoutMs)) / 4
	p.Net.Loss = []float64{0, 0, 0.03}[r.intn(3)]
	t := int64(1000)
	for i := 0; i < n; i++ {
		t += 1_000_000 + r.i64n(100_000_000)
		p.Ops = append(p.Ops, Op{At: t, Kind: "create", Node: i})
	}
	for i := 1; i < n; i++ {
		p.Ops = append(p.Ops, Op{At: t + 1_000_000 + r.i64n(400_000_000), Kind: "join", Node: i, L: []int64{int64(r.intn(i))}})
	}
	base := t + 800_000_000
	dur := int64(time.Duration(r.rangeI(12, 30)) * time.Second)
	// lifecycle ops
	for i := 0; i < n; i++ {
		if r.chance(0.6) {
			lt := base + r.i64n(dur/2)
			to := int64(r.pick(300, 1000, 3000))
			p.Ops = append(p.Ops, Op{At: lt, Kind: "leave", Node: i, A: to})
			if r.chance(0.6) {
				p.Ops = append(p.Ops, Op{At: lt + int64(r.pick(0, 1000, 100_000_000, 4_000_000_000)), Kind: "leave", Node: i, A: to})
			}
		}
		if r.chance(0.7) {
			st := base + dur/3 + r.i64n(dur/2)
			// B=1: a second Shutdown is issued by another goroutine while the first one is
			// inside transport.Shutdown() (a true overlap, see execC20)
			p.Ops = append(p.Ops, Op{At: st, Kind: "shutdown", Node: i, B: int64(r.pick(0, 1))})
			if r.chance(0.6) {
				p.Ops = append(p.Ops, Op{At: st + int64(r.pick(0, 1, 1000, 500_000_000)), Kind: "shutdown", Node: i})
			}
		}
	}
	// API calls from several clients at every stage
	kinds := []string{"members", "nummembers", "localnode", "health", "protover", "update", "update", "send", "sendrel", "ping", "join", "bcast", "localnode", "members"}
	k := r.rangeI(20, 90)
	for i := 0; i < k; i++ {
		at := base + r.i64n(dur)
		node := r.intn(n)
		kd := kinds[r.intn(len(kinds))]
		op := Op{At: at, Kind: kd, Node: node, B: int64(r.intn(n))}
		switch kd {
		case "update":
			op.A = int64(r.pick(100, 500, 2000))
			op.S = fmt.Sprintf("meta-%d", i)
		case "send", "sendrel", "bcast":
			op.Buf = r.bytes(r.rangeI(1, 80))
		case "join":
			op.L = []int64{int64(r.intn(n))}
		}
		p.Ops = append(p.Ops, op)
	}
	p.P["end"] = base + dur + int64(6*time.Second)
	p.YieldOff = genYieldOff(r)
	// a peer that accepts a stream and then stops reading (writes block until their deadline)
	p.Net.StreamBlock = []float64{0, 0, 0.1, 0.3}[r.intn(4)]
	// "shutdown2" parks inside the region protected by shutdownLock; with a truly
	// overlapping second Shutdown that would leave a goroutine blocked on a sync.Mutex
	hasS2 := false
	for _, s := range p.YieldOff {
		if s == "shutdown2" {
			hasS2 = true
		}
	}
	if !hasS2 {
		p.YieldOff = append(p.YieldOff, "shutdown2")
	}
	p.Cfg.AliveDel = r.chance(0.5) // an accepting AliveDelegate: a preemption point if it is ever called without the node lock
	return p
}

type c20mon struct {
	probeWindow time.Duration
	marked      map[*Memberlist]bool
	marked2     map[*Memberlist]bool
	baseW       map[*Memberlist][2]int
	reported    bool
}

// after Shutdown returned + one awareness-scaled probe interval: no background activity
func (m *c20mon) step(cx *clusterRun) {
	if m.reported {
		return
	}
	now := cx.c.Sim.Now()
	for _, n := range cx.cl.nodes {
		if n.shutM == nil || n.shutAt == 0 {
			continue
		}
		if n.ep.ShutdownCalls != 1 {
			m.reported = true
			cx.c.Violate("transport-shutdown-count", "", n.name, "transport.Shutdown() was called %d times by the time Shutdown returned", n.ep.ShutdownCalls)
			return
		}
		if now < n.shutAt+m.probeWindow {
			continue
		}
		check := func(ignoreStreamIO bool, window time.Duration) bool {
			arg := fmt.Sprintf("(%p", n.shutM)
			for _, g := range leakedGoroutines() {
				if strings.Contains(g, "(*Memberlist).") && strings.Contains(g, arg) && !strings.Contains(g, "zz_verif_cluster_test.go") {
					if ignoreStreamIO && (strings.Contains(g, "zz_verif_simnet_test.go") || strings.Contains(g, "(*Memberlist).handleConn(")) {
						// blocked in a dial / stream read that is bounded by TCPTimeout (C13's subject), or an
						// inbound stream handler accepted before Shutdown that is between two such reads
						// (caught by the snapshot while parked at its yield site); re-checked after TCPTimeout
						continue
					}
					m.reported = true
					cx.c.Violate("background-activity-after-shutdown", "", n.name, "%v after Shutdown returned (allowed: %v) a goroutine of that instance is still alive:\n%s", now-n.shutAt, window, g)
					return false
				}
			}
			return true
		}
		if !m.marked[n.shutM] {
			m.marked[n.shutM] = true
			n.ep.mu.Lock()
			m.baseW[n.shutM] = [2]int{n.ep.WritesAfterShut, n.ep.DialsAfterShut}
			n.ep.mu.Unlock()
			if !check(true, m.probeWindow) {
				return
			}
		}
		if w2 := m.probeWindow + n.conf.TCPTimeout + 50*time.Millisecond; now >= n.shutAt+w2 && !m.marked2[n.shutM] {
			m.marked2[n.shutM] = true
			if !check(false, w2) {
				return
			}
		}
	}
}
func (m *c20mon) finish(cx *clusterRun) {}

func execC20(c *Ctx) {
	p := c.Plan
	tp := tProbe(p.Cfg) + 50*time.Millisecond
	mon := &c20mon{probeWindow: tp, marked: map[*Memberlist]bool{}, marked2: map[*Memberlist]bool{}, baseW: map[*Memberlist][2]int{}}
	cx := startClusterRun(c, mon, newEventMon(), &healthMon{}, newSelfMon())
	cx.allowAfterShutdown = true
	type overlapObs struct {
		node                       string
		returned                   bool
		transportClosed, flag, chClosed bool
		err                        error
	}
	var overlaps []*overlapObs
	cx.customOp = func(rec *opRec) bool {
		op := rec.Op
		n := cx.node(op.Node)
		if op.Kind == "shutdown" && op.B == 1 && n != nil && n.m != nil && n.ep != nil && !n.shutCalled {
			m := n.m
			ep := n.ep
			ob := &overlapObs{node: n.name}
			overlaps = append(overlaps, ob)
			ep.onShutdown = func() {
				go func() {
					c.Sim.direct.Add(1) // the overlapping call must not park at its entry yield
					ob.err = m.Shutdown()
					c.Sim.direct.Add(-1)
					ep.mu.Lock()
					ob.transportClosed = ep.closed
					ep.mu.Unlock()
					ob.flag = m.hasShutdown()
					select {
					case <-m.shutdownCh:
						ob.chClosed = true
					default:
					}
					ob.returned = true
				}()
				for i := 0; i < 300; i++ {
					runtime.Gosched()
				}
			}
			c.Reach("overlapping_shutdown_probe")
		}
		return false
	}
	end := time.Duration(p.param("end", int64(30*time.Second)))
	c.Sim.RunUntil(end, func() bool { return c.Failed() })
	if c.Failed() {
		cx.finish()
		return
	}
	// give pending calls their full timeouts
	c.Sim.Run(6 * time.Second)
	stages := map[string]int{}
	for _, rec := range cx.ops {
		op := rec.Op
		who := fmt.Sprintf("n%d", op.Node)
		if rec.Panic != "" {
			continue // reported by teardown as api-panic
		}
		if !rec.Done {
			st := ""
			for _, g := range leakedGoroutines() {
				if strings.Contains(g, "clusterRun).execOp") && strings.Contains(g, "memberlist.(*Memberlist)") {
					st = g
					break
				}
			}
			c.Violate("api-call-hung", "", who, "%s on %s called at %v has not returned %v later:\n%s", op.Kind, who, rec.StartT, c.Sim.Now()-rec.StartT, st)
			break
		}
		switch op.Kind {
		case "leave":
			if rec.CallT > 0 {
				if d := rec.EndT - rec.CallT; d > time.Duration(op.A)*time.Millisecond+10*time.Millisecond {
					c.Violate("leave-exceeded-timeout", "", who, "Leave(%dms) on %s took %v", op.A, who, d)
				}
			}
		case "shutdown":
			if rec.Err != "" && rec.Err != "not created" {
				c.Violate("shutdown-error", "", who, "Shutdown returned %s", rec.Err)
			}
		case "localnode":
			if rec.Err != "" {
				c.Violate("localnode-wrong", "", who, "%s", rec.Err)
			}
		}
		n := cx.node(op.Node)
		stage := "joined"
		if n.shutAt > 0 && rec.StartT >= n.shutAt {
			stage = "shutdown"
		} else if lt, ok := cx.leaveT[n.idx]; ok && rec.StartT >= lt {
			stage = "left"
			if rec.StartT >= lt+ms(p.Cfg.GossipToDeadMs)+time.Duration(p.N+1)*ms(p.Cfg.ProbeIntervalMs) {
				stage = "left_and_reaped"
			}
		}
		stages[stage]++
	}
	for k, v := range stages {
		c.ReachN("api_call_stage_"+k, int64(v))
	}
	for _, ob := range overlaps {
		if ob.returned && (!ob.transportClosed || !ob.flag || !ob.chClosed || ob.err != nil) {
			c.Violate("overlapping-shutdown-returned-early", "", ob.node, "a Shutdown call issued while another Shutdown was inside transport.Shutdown() returned (err=%v) although the teardown was not finished: transport closed=%v, shutdown flag=%v, shutdownCh closed=%v", ob.err, ob.transportClosed, ob.flag, ob.chClosed)
		}
	}
	// nothing reaches the network after Shutdown returned (+ one probe window)
	for _, n := range cx.cl.nodes {
		if n.shutM == nil {
			continue
		}
		if b, ok := mon.baseW[n.shutM]; ok {
			n.ep.mu.Lock()
			w, d := n.ep.WritesAfterShut, n.ep.DialsAfterShut
			n.ep.mu.Unlock()
			// API calls made by the plan on the dead instance (send/ping/join/update) legitimately try
			apiTries := 0
			for _, rec := range cx.ops {
				if rec.Op.Node == n.idx && rec.StartT >= n.shutAt+tp {
					switch rec.Op.Kind {
					case "send", "sendrel", "ping", "join", "sendaddr":
						apiTries += 2
					}
				}
			}
			if (w-b[0])+(d-b[1]) > apiTries {
				c.Violate("traffic-after-shutdown", "", n.name, "%s: %d packet writes and %d dials were attempted later than one probe window after Shutdown returned (explained by API calls: at most %d)", n.name, w-b[0], d-b[1], apiTries)
			}
		}
		// no membership callback later than the probe window after Shutdown
		n.mu.Lock()
		var late []string
		for _, e := range append(append([]evRec(nil), n.events...), n.staleEvents...) {
			// (an UpdateNode call on the dead instance legitimately reports the caller's own update)
			if e.T > n.shutAt+tp && e.Name != n.name {
				late = append(late, fmt.Sprintf("%s(%s)@+%v", e.Kind, e.Name, e.T-n.shutAt))
			}
		}
		n.mu.Unlock()
		if len(late) > 0 {
			c.Violate("callback-after-shutdown", "C20/suspicion-timer-survives-shutdown", n.name, "%s: membership callbacks delivered after Shutdown returned + one awareness-scaled probe interval (%v): %v", n.name, tp, late)
		}
	}
	synctest.Wait()
	c.Res.Nontrivial = len(cx.ops) > 10
	c.Res.Sample = map[string]any{"n": p.N, "ops": len(p.Ops), "stages": stages}
	cx.finish()
}
