package memberlist

// C01L: membership claims about one member applied to one node from several goroutines at once
// (the packet handler, push/pull stream handlers and the node's own timers all call aliveNode /
// suspectNode / deadNode concurrently in a real deployment). The scheduler interleaves the
// callers at the entry of the three functions, inside every user callback the library makes
// without holding the node lock (AliveDelegate, EventDelegate) and at any other guarded yield
// site. Oracle: linearizability with the library itself as the sequential specification - the
// final record, Members(), the queued broadcast, the suspicion timer, the conflict log and the
// event log of the concurrent run must equal those of at least one merge of the callers'
// programs applied one claim at a time to a fresh instance. Plus structural invariants of the
// member table (one list slot per map entry).

import (
	"fmt"
	"net"
	"sort"
	"strings"
	"testing/synctest"
)

func init() {
	register(&Scenario{Name: "C01L", Gen: genC01L, Exec: execC01L})
}

func genC01L(c *Ctx) *Plan {
	r := c.R
	p := &Plan{Cfg: benchCfg(r), P: map[string]int64{}, YieldOff: []string{"*"}}
	p.Cfg.GossipToDeadMs = 3600_000
	p.Cfg.ProbeIntervalMs = 1000
	p.Cfg.AliveDel = r.chance(0.8)
	base := int64(r.rangeI(1, 3))
	p.P["base"] = base
	p.P["others"] = int64(r.pick(0, 1, 2, 4))
	// prior view of x: 0 absent, 1 alive, 2 suspect, 3 dead (accused), 4 left
	prior := r.pick(0, 0, 0, 1, 1, 2, 3, 4)
	p.P["prior"] = int64(prior)
	nclients := r.pick(2, 2, 2, 3)
	for cl := 0; cl < nclients; cl++ {
		nops := r.pick(1, 1, 2)
		if nclients == 3 {
			nops = 1
		}
		for i := 0; i < nops; i++ {
			kind := []string{"alive", "alive", "alive", "suspect", "dead"}[r.intn(5)]
			if prior == 0 && r.chance(0.6) {
				kind = "alive"
			}
			op := Op{Kind: "cl", Node: cl, S: kind, A: base + int64(r.rangeI(-1, 2))}
			if op.A < 0 {
				op.A = 0
			}
			switch kind {
			case "alive":
				if r.chance(0.15) {
					op.B = 1 // another address
				}
				op.C = int64(r.intn(3)) // meta variant
			default:
				op.S2 = []string{"p1", "p2", "x", "obs", "p1"}[r.intn(5)]
			}
			p.Ops = append(p.Ops, op)
		}
	}
	return p
}

type c01lDigest struct {
	rec, members, bcast, events, conflicts string
	timer                                  bool
}

func (d c01lDigest) state() string {
	return fmt.Sprintf("record=%s members=[%s] queued=%s timer=%v conflicts=[%s]", d.rec, d.members, d.bcast, d.timer, d.conflicts)
}

func c01lApply(m *Memberlist, op Op) {
	addr := net.IPv4(10, 0, 1, 9).To4()
	if op.B == 1 {
		addr = net.IPv4(10, 0, 1, 10).To4()
	}
	switch op.S {
	case "alive":
		m.aliveNode(&alive{Incarnation: uint32(op.A), Node: "x", Addr: addr, Port: 7946, Meta: []byte(fmt.Sprintf("meta%d", op.C)), Vsn: c01Vsn(0)}, nil, false)
	case "suspect":
		m.suspectNode(&suspect{Incarnation: uint32(op.A), Node: "x", From: op.S2})
	case "dead":
		m.deadNode(&dead{Incarnation: uint32(op.A), Node: "x", From: op.S2})
	}
}

func c01lDesc(op Op) string {
	switch op.S {
	case "alive":
		return fmt.Sprintf("alive@%d(addr%d,meta%d)", op.A, op.B, op.C)
	}
	return fmt.Sprintf("%s@%d(from %s)", op.S, op.A, op.S2)
}

// c01lPrior brings a fresh instance to the generated prior view, one claim at a time.
func c01lPrior(m *Memberlist, p *Plan) {
	base := uint32(p.param("base", 1))
	for i := 1; i <= int(p.param("others", 0)); i++ {
		m.aliveNode(&alive{Incarnation: 1, Node: fmt.Sprintf("p%d", i), Addr: net.IPv4(10, 0, 2, byte(i)).To4(), Port: 7946, Vsn: c01Vsn(0)}, nil, false)
	}
	x := func() {
		m.aliveNode(&alive{Incarnation: base, Node: "x", Addr: net.IPv4(10, 0, 1, 9).To4(), Port: 7946, Meta: []byte("meta0"), Vsn: c01Vsn(0)}, nil, false)
	}
	switch p.param("prior", 0) {
	case 1:
		x()
	case 2:
		x()
		m.suspectNode(&suspect{Incarnation: base, Node: "x", From: "p1"})
	case 3:
		x()
		m.deadNode(&dead{Incarnation: base, Node: "x", From: "p1"})
	case 4:
		x()
		m.deadNode(&dead{Incarnation: base, Node: "x", From: "x"})
	}
}

func c01lDigestOf(n *SimNode, evFrom int) c01lDigest {
	d := c01lDigest{rec: n.view("x").String(), members: strings.Join(n.memberNames(), ",")}
	if b, ok := n.queuedBroadcasts()["x"]; ok {
		d.bcast = fmt.Sprintf("%x", b)
	}
	n.m.nodeLock.RLock()
	_, d.timer = n.m.nodeTimers["x"]
	n.m.nodeLock.RUnlock()
	n.mu.Lock()
	var evs []string
	for _, e := range n.events[evFrom:] {
		evs = append(evs, fmt.Sprintf("%s(%s,%s,%q)", e.Kind, e.Name, e.Addr, e.Meta))
	}
	d.events = strings.Join(evs, " ")
	d.conflicts = strings.Join(n.conflicts, ";")
	n.mu.Unlock()
	return d
}

// c01lTable checks the structural invariants of the member table.
func c01lTable(m *Memberlist) string {
	m.nodeLock.RLock()
	defer m.nodeLock.RUnlock()
	if len(m.nodes) != len(m.nodeMap) {
		var names []string
		for _, s := range m.nodes {
			names = append(names, s.Name)
		}
		sort.Strings(names)
		return fmt.Sprintf("member list has %d slots %v for %d table entries", len(m.nodes), names, len(m.nodeMap))
	}
	seen := map[string]bool{}
	for _, s := range m.nodes {
		if seen[s.Name] {
			return "member list holds " + s.Name + " twice"
		}
		seen[s.Name] = true
		if m.nodeMap[s.Name] != s {
			return "list slot of " + s.Name + " is not the record the table maps the name to"
		}
	}
	if st, ok := m.nodeMap["x"]; ok {
		_, timer := m.nodeTimers["x"]
		if timer != (st.State == StateSuspect) {
			return fmt.Sprintf("x is %s but suspicion timer registered=%v", stateName(st.State), timer)
		}
	}
	return ""
}

func execC01L(c *Ctx) {
	p := c.Plan
	sim := c.Sim
	b := newBench(c, p.Cfg, false, nil)
	defer b.finish()
	m := b.n.m
	c01lPrior(m, p)
	evFrom := len(b.lastEvents(0))
	var progs [][]Op
	for _, op := range p.Ops {
		if op.Kind != "cl" || op.Node < 0 || op.Node > 3 {
			continue
		}
		for len(progs) <= op.Node {
			progs = append(progs, nil)
		}
		progs[op.Node] = append(progs[op.Node], op)
	}
	nops := 0
	for _, pr := range progs {
		nops += len(pr)
	}
	if len(progs) < 2 || nops > 6 {
		return
	}
	// concurrent phase: the scheduler owns every preemption point
	b.n.noYieldCb = false
	sim.yieldAll = false
	sim.yieldSites = map[string]bool{"alive": true, "suspect": true, "dead": true, "alivedel": true, "evcb": true}
	done := make([]bool, len(progs))
	panics := make([]string, len(progs))
	for cl := range progs {
		cl := cl
		go func() {
			defer func() {
				if r := recover(); r != nil {
					panics[cl] = fmt.Sprint(r)
				}
				done[cl] = true
			}()
			for _, op := range progs[cl] {
				c01lApply(m, op)
			}
		}()
		synctest.Wait() // started one after the other up to their first park
	}
	sim.Settle()
	sim.yieldSites = map[string]bool{}
	b.n.noYieldCb = true
	var descs []string
	for cl, pr := range progs {
		var s []string
		for _, op := range pr {
			s = append(s, c01lDesc(op))
		}
		descs = append(descs, fmt.Sprintf("caller %d: %s", cl, strings.Join(s, ", ")))
	}
	prior := []string{"absent", "alive", "suspect", "dead", "left"}[p.param("prior", 0)%5]
	ctx := fmt.Sprintf("prior view of x: %s@%d; %s", prior, p.param("base", 1), strings.Join(descs, " | "))
	for cl := range progs {
		if panics[cl] != "" {
			c.Violate("panic", "", "obs", "%s: caller %d panicked: %s", ctx, cl, panics[cl])
			return
		}
		if !done[cl] {
			c.Violate("claim-call-hung", "", "obs", "%s: caller %d did not return", ctx, cl)
			return
		}
	}
	if b.n.cbOverlap.Load() > 0 {
		c.Violate("event-concurrent", "", "obs", "%s: two event callbacks overlapped", ctx)
		return
	}
	if bad := c01lTable(m); bad != "" {
		c.Violate("table-corrupt", "", "obs", "%s: %s", ctx, bad)
		return
	}
	got := c01lDigestOf(b.n, evFrom)

	// sequential specification: every merge of the programs on a fresh instance
	idx := make([]int, len(progs))
	var seq []Op
	var serial []c01lDigest
	var rec func()
	rec = func() {
		if len(seq) == nops {
			cl := newCluster(sim, p)
			n := cl.addNode("obs", net.IPv4(10, 0, 0, 1).To4(), p.Cfg)
			n.noYieldCb = true
			if err := cl.create(n, func(conf *Config) { conf.PushPullInterval = 0; conf.GossipInterval = 0 }); err != nil {
				panic("reference create: " + err.Error())
			}
			n.m.deschedule()
			var d c01lDigest
			sim.Direct(func() {
				c01lPrior(n.m, p)
				n.mu.Lock()
				from := len(n.events)
				n.mu.Unlock()
				for _, op := range seq {
					c01lApply(n.m, op)
				}
				d = c01lDigestOf(n, from)
			})
			_ = n.m.Shutdown()
			cl.net.closeAll()
			serial = append(serial, d)
			return
		}
		for cl := range progs {
			if idx[cl] < len(progs[cl]) {
				seq = append(seq, progs[cl][idx[cl]])
				idx[cl]++
				rec()
				idx[cl]--
				seq = seq[:len(seq)-1]
			}
		}
	}
	rec()
	stateOK, evOK := false, false
	for _, d := range serial {
		if d.state() == got.state() {
			stateOK = true
			if d.events == got.events {
				evOK = true
			}
		}
	}
	if !stateOK {
		var alts []string
		seen := map[string]bool{}
		for _, d := range serial {
			if !seen[d.state()] {
				seen[d.state()] = true
				alts = append(alts, d.state())
			}
		}
		c.Violate("claims-not-linearizable", "", "obs", "%s: concurrent application ended in {%s}, which no sequential order of the claims produces (%d merges; sequential outcomes: %s)", ctx, got.state(), len(serial), strings.Join(alts, " || "))
		return
	}
	if !evOK {
		c.Violate("events-not-serial", "", "obs", "%s: final state matches a sequential order, but the event log [%s] does not match the log of any sequential order with that outcome", ctx, got.events)
		return
	}
	c.Res.Nontrivial = true
	c.Stat("merges", int64(len(serial)))
	if sim.siteHits["alivedel"] > 0 {
		c.Reach("alive_delegate_called_without_node_lock")
	}
	c.Res.FP = fmt.Sprintf("%016x", hash64(hashStr(ctx), sim.fpHash))
	c.Res.Sample = map[string]any{"scenario": ctx, "outcome": got.state(), "events": got.events, "merges": len(serial)}
}
