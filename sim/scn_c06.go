package memberlist

// C06 — suspicion timeout respects the Lifeguard bounds and confirmation rules.

import (
	"fmt"
	"math"
	"net"
	"sort"
	"time"
)

func init() {
	register(&Scenario{Name: "C06", Gen: genC06, Exec: execC06})
}

// ops (At = offset from t_s in ns):
//   confirm  S=from  A=inc delta (-1,0,+1)
//   refute   (alive inc+1 from the suspect)   then optional  resuspect (suspect inc+1 from obs / p1)
//   dead3    third-party dead  S=from ; leave (dead from the suspect itself)
func genC06(c *Ctx) *Plan {
	r := c.R
	p := &Plan{Cfg: benchCfg(r), P: map[string]int64{}, YieldOff: []string{"*"}}
	p.Cfg.SuspicionMult = r.rangeI(1, 8)
	p.Cfg.SuspicionMaxMult = r.rangeI(1, 8)
	p.Cfg.ProbeIntervalMs = r.pick(100, 500, 1000)
	p.Cfg.GossipToDeadMs = 3600_000
	m := r.pick(1, 2, 3, 4, 5, 6, 8, 12, 20, 40)
	p.P["m"] = int64(m)
	p.P["accuser"] = int64(r.pick(0, 0, 0, 1)) // 0 = obs itself, 1 = p1 (another node's suspicion)
	n := m + 1
	smin := float64(p.Cfg.SuspicionMult) * math.Max(1, math.Log10(float64(n))) * float64(ms(p.Cfg.ProbeIntervalMs))
	smax := float64(p.Cfg.SuspicionMaxMult) * smin
	names := []string{"obs", "px", "p1", "p2", "p3", "p4", "p5", "p6", "p7", "p8", "stranger"}
	k := r.rangeI(0, 10)
	for i := 0; i < k; i++ {
		at := int64(r.f64() * smax * 1.15)
		switch r.intn(5) {
		case 0:
			at = int64(smin) + int64(r.pick(-2_000_000, -1, 0, 1, 2_000_000))
		case 1:
			at = r.i64n(int64(smin) + 1)
		}
		if at < 1 {
			at = 1
		}
		p.Ops = append(p.Ops, Op{At: at, Kind: "confirm", S: names[r.intn(len(names))], A: int64(r.pick(0, 0, 0, 0, 1, -1))})
	}
	// hearsay by push/pull: a peer's table lists px as suspect or dead. The library turns that into
	// a suspicion in the local node's own name, so it counts like one confirmation by the observer
	// (never when the observer is the accuser), whoever the push/pull partner was and however often
	for i := 0; i < r.pick(0, 0, 1, 2, 3); i++ {
		p.Ops = append(p.Ops, Op{At: 1 + r.i64n(int64(smax*1.1)), Kind: "ppmerge", S: "obs", A: int64(r.pick(0, 0, 0, 1, -1)), B: int64(r.intn(2))})
	}
	// stale claims (older incarnation) of every kind: must not touch the running timer
	for i := 0; i < r.pick(0, 0, 1, 2); i++ {
		p.Ops = append(p.Ops, Op{At: 1 + r.i64n(int64(smax)), Kind: "stale", S: []string{"dead", "alive", "leave", "suspect"}[r.intn(4)], S2: names[2+r.intn(4)], A: int64(r.pick(1, 2))})
	}
	if r.chance(0.35) {
		at := int64(r.f64() * smax)
		switch r.intn(3) {
		case 0:
			p.Ops = append(p.Ops, Op{At: at, Kind: "refute"})
			if r.chance(0.7) {
				p.Ops = append(p.Ops, Op{At: at + 1 + r.i64n(int64(smax)), Kind: "resuspect", S: []string{"obs", "p1"}[r.intn(2)]})
			}
		case 1:
			p.Ops = append(p.Ops, Op{At: at, Kind: "dead3", S: names[2+r.intn(3)]})
		case 2:
			p.Ops = append(p.Ops, Op{At: at, Kind: "leave"})
		}
	}
	sort.SliceStable(p.Ops, func(i, j int) bool { return p.Ops[i].At < p.Ops[j].At })
	// the observer's own health score when the suspicion starts: the suspicion timeouts are a
	// function of the configured probe interval, not of the awareness-scaled one
	p.P["health"] = int64(r.pick(0, 0, 0, 1, 2, 3, 7))
	return p
}

// refTimer is the reference Lifeguard suspicion timer (from the paper / config docs).
type refTimer struct {
	start     time.Duration
	k         int
	min, max  time.Duration
	confirmed map[string]bool
	c         int
	deadline  time.Duration
}

func newRefTimer(start time.Duration, accuser string, suspMult, maxMult, n int, pi time.Duration) *refTimer {
	k := suspMult - 2
	if n-2 < k {
		k = 0
	}
	scale := math.Max(1, math.Log10(math.Max(1, float64(n))))
	min := time.Duration(float64(suspMult) * scale * float64(pi))
	max := time.Duration(maxMult) * min
	t := &refTimer{start: start, k: k, min: min, max: max, confirmed: map[string]bool{accuser: true}}
	t.deadline = start + max
	if k < 1 {
		t.deadline = start + min
	}
	return t
}

func (t *refTimer) confirm(from string, now time.Duration) {
	if t.c >= t.k || t.confirmed[from] {
		return
	}
	t.confirmed[from] = true
	t.c++
	frac := math.Log(float64(t.c)+1) / math.Log(float64(t.k)+1)
	d := time.Duration(float64(t.max) - frac*float64(t.max-t.min))
	if d < t.min {
		d = t.min
	}
	nd := t.start + d
	if nd < now {
		nd = now
	}
	t.deadline = nd
}

func execC06(c *Ctx) {
	p := c.Plan
	b := newBench(c, p.Cfg, false, nil)
	defer b.finish()
	m := b.n.m
	np := int(p.param("m", 3))
	pi := m.config.ProbeInterval
	m.aliveNode(&alive{Incarnation: 3, Node: "px", Addr: net.IPv4(10, 0, 1, 1).To4(), Port: 7946, Vsn: c01Vsn(0)}, nil, false)
	for i := 1; i < np; i++ {
		m.aliveNode(&alive{Incarnation: 1, Node: fmt.Sprintf("p%d", i), Addr: net.IPv4(10, 0, 1, byte(1+i)).To4(), Port: 7946, Vsn: c01Vsn(0)}, nil, false)
	}
	b.sim.Run(time.Duration(1+c.R.intn(1000)) * time.Millisecond)
	n := np + 1
	accuser := "obs"
	if p.param("accuser", 0) == 1 {
		accuser = "p1"
	}
	// the library keeps 1/1000 precision on the node-scale factor and floors to a
	// millisecond: allow 0.1% of the maximum timeout plus 3 ms
	tol := 3*time.Millisecond + time.Duration(p.Cfg.SuspicionMult*p.Cfg.SuspicionMaxMult)*pi/1000
	inc := uint32(3)
	if h := int(p.param("health", 0)); h > 0 {
		m.awareness.ApplyDelta(h)
		c.Reach("observer_degraded")
	}
	ts := b.sim.Now()
	m.suspectNode(&suspect{Incarnation: inc, Node: "px", From: accuser})
	ref := newRefTimer(ts, accuser, p.Cfg.SuspicionMult, p.Cfg.SuspicionMaxMult, n, pi)
	if v := b.n.view("px"); v.State != StateSuspect {
		c.Res.HarnessErr = "setup: px not suspect: " + v.String()
		c.Res.OK = false
		return
	}
	sminAbs, smaxAbs := ts+ref.min, ts+ref.max
	// the exact instant px stops being listed is the record's StateChange
	var deathAt time.Duration = -1
	var deathState NodeStateType
	pollDeath := func() {
		if deathAt < 0 {
			if v := b.n.view("px"); v.State == StateDead || v.State == StateLeft {
				deathAt = v.Change.Sub(b.sim.start)
				deathState = v.State
			}
		}
	}
	b.sim.onStep = pollDeath
	defer func() { b.sim.onStep = nil }()
	expectDeath := true
	externalKill := false
	var cur *refTimer = ref
	counted := 0
	checkDeath := func(stage string) bool {
		now := b.sim.Now()
		pollDeath()
		if deathAt >= 0 {
			return true
		}
		if cur != nil && now > cur.deadline+tol {
			c.Violate("suspicion-too-late", "", "obs", "%s: px still listed at %v, reference deadline was %v (t_s=%v min=%v max=%v k=%d confirmations=%d)", stage, now, cur.deadline, cur.start, cur.min, cur.max, cur.k, cur.c)
			return false
		}
		return true
	}
	for i, op := range p.Ops {
		at := ts + time.Duration(op.At)
		if at > b.sim.Now() {
			b.sim.RunUntil(at, func() bool { return deathAt >= 0 })
		}
		pollDeath()
		if deathAt >= 0 {
			break
		}
		if !checkDeath(fmt.Sprintf("before op #%d", i)) {
			return
		}
		now := b.sim.Now()
		switch op.Kind {
		case "confirm", "resuspect", "ppmerge":
			cinc := uint32(int64(inc) + op.A)
			if op.Kind == "ppmerge" {
				st := StateSuspect
				if op.B == 1 {
					st = StateDead
				}
				m.mergeState([]pushNodeState{{Name: "px", Addr: net.IPv4(10, 0, 1, 1).To4(), Port: 7946, Incarnation: cinc, State: st, Vsn: c01Vsn(0)}})
				c.Reach("hearsay_by_pushpull_during_suspicion")
			} else {
				m.suspectNode(&suspect{Incarnation: cinc, Node: "px", From: op.S})
			}
			if cinc >= inc {
				if cur != nil {
					before := cur.c
					cur.confirm(op.S, now)
					if cur.c > before {
						counted++
					}
				} else {
					// px is alive (refuted): a suspicion at >= its incarnation starts afresh
					inc = cinc
					cur = newRefTimer(now, op.S, p.Cfg.SuspicionMult, p.Cfg.SuspicionMaxMult, n, pi)
					sminAbs, smaxAbs = now+cur.min, now+cur.max
					expectDeath = true
					c.Reach("resuspected")
				}
			}
		case "stale":
			if inc < uint32(op.A)+1 {
				break
			}
			sinc := inc - uint32(op.A)
			switch op.S {
			case "dead":
				m.deadNode(&dead{Incarnation: sinc, Node: "px", From: op.S2})
			case "leave":
				m.deadNode(&dead{Incarnation: sinc, Node: "px", From: "px"})
			case "alive":
				m.aliveNode(&alive{Incarnation: sinc, Node: "px", Addr: net.IPv4(10, 0, 1, 1).To4(), Port: 7946, Vsn: c01Vsn(0)}, nil, false)
			case "suspect":
				m.suspectNode(&suspect{Incarnation: sinc, Node: "px", From: op.S2})
			}
			c.Reach("stale_claim_during_suspicion")
		case "refute":
			inc++
			m.aliveNode(&alive{Incarnation: inc, Node: "px", Addr: net.IPv4(10, 0, 1, 1).To4(), Port: 7946, Vsn: c01Vsn(0)}, nil, false)
			cur = nil
			expectDeath = false
			c.Reach("refuted")
		case "dead3":
			m.deadNode(&dead{Incarnation: inc, Node: "px", From: op.S})
			externalKill = true
		case "leave":
			m.deadNode(&dead{Incarnation: inc, Node: "px", From: "px"})
			externalKill = true
		}
		b.sim.Settle()
		if externalKill {
			v := b.n.view("px")
			want := StateDead
			if op.Kind == "leave" {
				want = StateLeft
			}
			if v.State != want {
				c.Violate("external-claim-not-applied", "", "obs", "op #%d %s: record is %s", i, op.Kind, v)
			}
			c.Reach("external_" + op.Kind)
			c.Res.Nontrivial = true
			c.Res.FP = fmt.Sprintf("%016x", hash64(hashOps(p.Ops), uint64(np), uint64(p.Cfg.SuspicionMult), uint64(p.Cfg.SuspicionMaxMult)))
			return
		}
	}
	if deathAt < 0 && expectDeath && cur != nil {
		b.sim.RunUntil(cur.deadline+tol+time.Millisecond, func() bool { return deathAt >= 0 })
		pollDeath()
	}
	if !expectDeath {
		// refuted and never re-suspected: px must stay listed, also once the old timer fires
		b.sim.RunUntil(ts+ref.max+2*tol+time.Second, func() bool { return deathAt >= 0 })
		pollDeath()
		if deathAt >= 0 {
			c.Violate("killed-after-refutation", "", "obs", "px was refuted at inc %d but the node dropped it at %v (stale timer?)", inc, deathAt)
			return
		}
		c.Res.Nontrivial = true
		c.Res.FP = fmt.Sprintf("%016x", hash64(hashOps(p.Ops), uint64(np), uint64(p.Cfg.SuspicionMult), uint64(p.Cfg.SuspicionMaxMult)))
		return
	}
	if deathAt < 0 {
		c.Violate("suspicion-too-late", "", "obs", "px still listed at %v; reference deadline %v (t_s=%v min=%v max=%v k=%d c=%d)", b.sim.Now(), cur.deadline, cur.start, cur.min, cur.max, cur.k, cur.c)
		return
	}
	// death happened at deathAt
	if deathState != StateDead {
		c.Violate("wrong-final-state", "", "obs", "timeout produced state %s", stateName(deathState))
		return
	}
	if deathAt < sminAbs-tol {
		c.Violate("suspicion-too-early", "", "obs", "px declared dead %v after t_s, before the minimum timeout %v (k=%d c=%d)", deathAt-cur.start, cur.min, cur.k, cur.c)
		return
	}
	if deathAt > smaxAbs+tol {
		c.Violate("suspicion-too-late", "", "obs", "px declared dead %v after t_s, after the maximum timeout %v", deathAt-cur.start, cur.max)
		return
	}
	if d := deathAt - cur.deadline; d < -tol-time.Millisecond || d > tol {
		c.Violate("suspicion-deadline-mismatch", "", "obs", "px declared dead at t_s+%v, reference (k=%d, %d counted confirmations, min=%v max=%v) says t_s+%v", deathAt-cur.start, cur.k, cur.c, cur.min, cur.max, cur.deadline-cur.start)
		return
	}
	// the dead message is signed by the observer
	msg := b.n.queuedBroadcasts()["px"]
	var d dead
	if len(msg) == 0 || messageType(msg[0]) != deadMsg || decode(msg[1:], &d) != nil || d.From != "obs" || d.Node != "px" {
		c.Violate("dead-not-gossiped", "", "obs", "no dead{px, From=obs} queued after the timeout")
		return
	}
	c.Res.Nontrivial = true
	if counted > 0 {
		c.Reach("confirmations_counted")
	}
	if cur.k == 0 {
		c.Reach("k_zero")
	}
	if cur.k > 0 && cur.c >= cur.k {
		c.Reach("driven_to_min")
	}
	c.Stat("counted_confirmations", int64(counted))
	c.Res.FP = fmt.Sprintf("%016x", hash64(hashOps(p.Ops), uint64(np), uint64(p.Cfg.SuspicionMult), uint64(p.Cfg.SuspicionMaxMult), uint64(p.Cfg.ProbeIntervalMs)))
	c.Res.Sample = map[string]any{"m": np, "k": cur.k, "min_ms": cur.min / time.Millisecond, "max_ms": cur.max / time.Millisecond, "confirmations": cur.c, "death_after_ms": (deathAt - cur.start) / time.Millisecond}
}

// ---------------------------------------------------------------- C06I: the suspicion timeout racing a refutation at the yield sites

func init() {
	register(&Scenario{Name: "C06I", Gen: genC06I, Exec: execC06I})
}

func genC06I(c *Ctx) *Plan {
	r := c.R
	p := &Plan{Cfg: benchCfg(r), P: map[string]int64{}, YieldOff: []string{"*"}}
	p.Cfg.SuspicionMult = r.rangeI(1, 4)
	p.Cfg.SuspicionMaxMult = r.rangeI(1, 3)
	p.Cfg.ProbeIntervalMs = r.pick(100, 500)
	p.Cfg.GossipToDeadMs = 3600_000
	p.P["m"] = int64(r.pick(1, 2, 3, 5))
	p.P["offset_ns"] = int64(r.pick(-1000, -1, 0, 0, 0, 1, 1000)) // refutation relative to the deadline
	p.P["kind"] = int64(r.pick(0, 0, 1))                          // 0 alive inc+1 ; 1 alive inc+1 then suspect inc+1 (re-suspicion)
	return p
}

func execC06I(c *Ctx) {
	p := c.Plan
	b := newBench(c, p.Cfg, false, nil)
	defer b.finish()
	m := b.n.m
	sim := b.sim
	np := int(p.param("m", 2))
	pxAddr := net.IPv4(10, 0, 1, 1).To4()
	m.aliveNode(&alive{Incarnation: 3, Node: "px", Addr: pxAddr, Port: 7946, Vsn: c01Vsn(0)}, nil, false)
	for i := 1; i < np; i++ {
		m.aliveNode(&alive{Incarnation: 1, Node: fmt.Sprintf("p%d", i), Addr: net.IPv4(10, 0, 1, byte(1+i)).To4(), Port: 7946, Vsn: c01Vsn(0)}, nil, false)
	}
	sim.Run(10 * time.Millisecond)
	ts := sim.Now()
	m.suspectNode(&suspect{Incarnation: 3, Node: "px", From: "obs"})
	ref := newRefTimer(ts, "obs", p.Cfg.SuspicionMult, p.Cfg.SuspicionMaxMult, np+1, m.config.ProbeInterval)
	// from here on the scheduler owns the interleaving of the timer callback and the refutation
	sim.yieldAll = false
	sim.yieldSites = map[string]bool{"susptimeout": true, "susptimeout2": true, "alive": true, "dead": true, "suspect": true}
	// the library floors the timeout to whole milliseconds: aim at the actual timer instant
	st := m.nodeTimers["px"]
	if st == nil {
		c.Res.HarnessErr = "no timer"
		c.Res.OK = false
		return
	}
	_ = ref
	fire := ts + st.min
	if st.k >= 1 {
		fire = ts + st.max
	}
	at := fire + time.Duration(p.param("offset_ns", 0))
	delivered := false
	sim.At(at, 1<<57, 1, "refute", func() {
		go func() {
			m.aliveNode(&alive{Incarnation: 4, Node: "px", Addr: pxAddr, Port: 7946, Vsn: c01Vsn(0)}, nil, false)
			if p.param("kind", 0) == 1 {
				m.suspectNode(&suspect{Incarnation: 4, Node: "px", From: "p1"})
			}
			delivered = true
		}()
	})
	sim.RunUntil(at+5*time.Millisecond, nil)
	sim.Settle()
	sim.yieldSites = map[string]bool{}
	if !delivered {
		c.Res.HarnessErr = "refutation not delivered"
		c.Res.OK = false
		return
	}
	v := b.n.view("px")
	// the refutation (alive@4) was delivered: whatever the order, px must now be listed at
	// incarnation 4 (alive, or suspect again when the script re-suspected it); a stale timer
	// must never have declared it dead at the refuting incarnation
	wantSuspect := p.param("kind", 0) == 1
	ok := v.Inc == 4 && ((v.State == StateAlive && !wantSuspect) || (v.State == StateSuspect && wantSuspect))
	if !ok {
		c.Violate("refuted-peer-killed-by-stale-timeout", "", "obs", "suspicion of px@3 due at %v, refutation alive@4 delivered at offset %dns (re-suspected=%v): record is %s, expected listed at incarnation 4", fire-ts, p.param("offset_ns", 0), wantSuspect, v)
		return
	}
	if !b.n.lists("px") {
		c.Violate("refuted-peer-killed-by-stale-timeout", "", "obs", "px not in Members() after the refutation: %s", v)
	}
	c.Res.Nontrivial = true
	for k, n := range sim.siteHits {
		if k == "susptimeout2" && n > 0 {
			c.Reach("timeout_callback_parked_between_validation_and_action")
		}
	}
	c.Res.FP = fmt.Sprintf("%016x", hash64(uint64(np), uint64(p.param("offset_ns", 0)+5000), uint64(p.param("kind", 0)), uint64(p.Cfg.SuspicionMult), uint64(p.Cfg.SuspicionMaxMult), uint64(p.Cfg.ProbeIntervalMs), sim.fpHash))
	c.Res.Sample = map[string]any{"offset_ns": p.param("offset_ns", 0), "m": np, "record": v.String()}
}
