package memberlist

// Real-time stall monitor of a worker process.
//
// The driver waits for quiescence (synctest.Wait) after every release. A goroutine that
// blocks on a sync.Mutex / sync.RWMutex is not "durably blocked" for testing/synctest, so a
// lock that is never released (self-deadlock, lock-order inversion) makes Wait hang forever.
// This monitor runs outside every bubble on the real clock: when the scheduler has made no
// progress for stallLimit it dumps all goroutines, and
//   - if a goroutine of the current bubble sits in library code waiting for a sync mutex,
//     reports the run as a "lock-deadlock" violation (with the stacks) and exits the worker
//     (exit code 3: the orchestrator continues after that seed);
//   - otherwise reports a harness error for the seed.

import (
	"fmt"
	"os"
	"path/filepath"
	"regexp"
	"runtime"
	"strconv"
	"strings"
	"sync/atomic"
	"time"
)

var (
	progressTicks atomic.Int64
	stallPaused   atomic.Bool
	curRun        atomic.Pointer[RunResult]
)

func progressTick() { progressTicks.Add(1) }

func stallLimit() time.Duration {
	if s := os.Getenv("VERIF_STALL_S"); s != "" {
		if v, err := strconv.ParseFloat(s, 64); err == nil && v > 0 {
			return time.Duration(v * float64(time.Second))
		}
	}
	return 90 * time.Second // real time; generous because a heavily loaded box (load 60 on 16 cores was observed) starves a single scheduler step for tens of seconds
}

func allStacks() string {
	buf := make([]byte, 1<<20)
	for {
		n := runtime.Stack(buf, true)
		if n < len(buf) {
			return string(buf[:n])
		}
		buf = make([]byte, 2*len(buf))
	}
}

// classifyStall returns the stacks of library goroutines of the stalled bubble that wait for
// a sync mutex, and a stable signature (function of the innermost library frame).
func classifyStall(dump string) (blocked []string, sig string) {
	gs := strings.Split(dump, "\n\n")
	bubble := ""
	for _, g := range gs {
		head, _, _ := strings.Cut(g, "\n")
		if strings.Contains(g, "testing/synctest.Wait(") || strings.Contains(g, "internal/synctest.Wait(") {
			if i := strings.Index(head, "synctest bubble "); i >= 0 {
				bubble = strings.TrimRight(head[i:], "]:")
			}
		}
	}
	root := repoRoot() + "/"
	for _, g := range gs {
		head, _, _ := strings.Cut(g, "\n")
		if !strings.Contains(head, "synctest bubble") {
			continue
		}
		if bubble != "" && !strings.HasSuffix(strings.TrimRight(head, "]:"), bubble) {
			continue
		}
		if !(strings.Contains(head, "sync.Mutex.Lock") || strings.Contains(head, "sync.RWMutex.Lock") || strings.Contains(head, "sync.RWMutex.RLock") || strings.Contains(head, "semacquire")) {
			continue
		}
		// innermost frame that is neither runtime nor sync: must be library code
		lines := strings.Split(g, "\n")
		fn := ""
		lib := false
		blockedLoc := ""
		for i := 1; i+1 < len(lines); i += 2 {
			f := strings.TrimSpace(lines[i])
			loc := strings.TrimSpace(lines[i+1])
			if strings.HasPrefix(f, "sync.") || strings.HasPrefix(f, "runtime.") || strings.HasPrefix(f, "internal/") {
				continue
			}
			fn = f
			blockedLoc = loc
			lib = strings.HasPrefix(loc, root) && !strings.Contains(loc, "zz_verif_")
			if !lib && harnessLineTakesLibraryLock(loc) {
				// a harness accessor (monitor, view helper) waiting for one of the library's own locks
				lib = true
			}
			break
		}
		if !lib {
			continue
		}
		if j := strings.Index(fn, "("); j > 0 {
			// keep "pkg.(*T).method"
			if k := strings.LastIndex(fn, "("); k > 0 && strings.HasSuffix(fn, ")") {
				fn = fn[:k]
			}
		}
		fn = strings.TrimPrefix(fn, "github.com/hashicorp/memberlist.")
		// harness limitation, not a library deadlock: a second Leave/Shutdown waiting for the
		// first one, which the scheduler holds parked at a yield site inside the locked region
		if (fn == "(*Memberlist).Leave" || fn == "(*Memberlist).Shutdown") && sourceLineMatches(blockedLoc, leaveShutdownLockRe) {
			continue
		}
		if sig == "" {
			sig = fn
		}
		blocked = append(blocked, g)
	}
	return
}

func startStallMonitor(emit func(v any)) {
	limit := stallLimit()
	go func() {
		last := progressTicks.Load()
		lastT := time.Now()
		for {
			time.Sleep(500 * time.Millisecond)
			now := time.Now()
			v := progressTicks.Load()
			if stallPaused.Load() || v != last {
				last, lastT = v, now
				continue
			}
			if now.Sub(lastT) < limit {
				continue
			}
			dump := allStacks()
			blocked, sig := classifyStall(dump)
			res := curRun.Load()
			out := &RunResult{OK: false}
			if res != nil {
				out.Scn, out.Seed, out.Plan = res.Scn, res.Seed, res.Plan
				out.Violations = append(out.Violations, res.Violations...)
				out.Reach, out.Stats, out.Faults = res.Reach, res.Stats, res.Faults
			}
			if len(blocked) > 0 {
				msg := fmt.Sprintf("the simulation stopped making progress for %v of real time: %d goroutine(s) wait in library code for a sync mutex whose holder never releases it or is itself blocked on the network / a timer while holding it (deadlock, or a lock held across a blocking operation); first at %s:\n%s", limit, len(blocked), sig, strings.Join(firstN(blocked, 2), "\n\n"))
				if hold := parkedInLibrary(dump); len(hold) > 0 {
					msg += "\n\ngoroutines parked by the scheduler inside library code (a lock they hold across the yield site is held forever only if the library took it before a call that itself needs it):\n" + strings.Join(firstN(hold, 2), "\n\n")
				}
				if len(msg) > 9000 {
					msg = msg[:9000]
				}
				out.Violations = append([]Violation{{Class: "lock-deadlock", Msg: msg, Node: sig}}, out.Violations...)
			} else {
				if len(dump) > 8000 {
					dump = dump[:8000]
				}
				out.HarnessErr = fmt.Sprintf("stall: no scheduler progress for %v and no library goroutine waiting for a mutex\n%s", limit, dump)
			}
			emit(out)
			os.Exit(3)
		}
	}()
}

func firstN(xs []string, n int) []string {
	if len(xs) > n {
		return xs[:n]
	}
	return xs
}

// parkedInLibrary: goroutines parked at a scheduler yield site whose stack shows a library
// function calling another library function around the yield (candidate lock holders).
func parkedInLibrary(dump string) []string {
	var out []string
	for _, g := range strings.Split(dump, "\n\n") {
		if !strings.Contains(g, "(*Sim).yield(") || !strings.Contains(g, "verifYield") {
			continue
		}
		if strings.Contains(g, "suspicion") || strings.Count(g, repoRoot()+"/") > 4 {
			out = append(out, g)
		}
	}
	return out
}

var libLockRe = regexp.MustCompile(`\.(nodeLock|leaveLock|shutdownLock|msgQueueLock|tickerLock|ackLock|advertiseLock)\.`)

// harnessLineTakesLibraryLock: loc is "<root>/zz_verif_<name>_test.go:<line> +0x..", the overlaid
// copy of $VERIF_SIMDIR/<name>.go; true when that source line locks a library mutex.
func harnessLineTakesLibraryLock(loc string) bool {
	dir := os.Getenv("VERIF_SIMDIR")
	if dir == "" {
		return false
	}
	loc, _, _ = strings.Cut(loc, " ")
	file, line, ok := strings.Cut(loc, ":")
	if !ok {
		return false
	}
	base := filepath.Base(file)
	if !strings.HasPrefix(base, "zz_verif_") || !strings.HasSuffix(base, "_test.go") {
		return false
	}
	name := strings.TrimSuffix(strings.TrimPrefix(base, "zz_verif_"), "_test.go") + ".go"
	b, err := os.ReadFile(filepath.Join(dir, name))
	if err != nil {
		return false
	}
	n, err := strconv.Atoi(line)
	lines := strings.Split(string(b), "\n")
	if err != nil || n < 1 || n > len(lines) {
		return false
	}
	return libLockRe.MatchString(lines[n-1])
}

var leaveShutdownLockRe = regexp.MustCompile(`\.(leaveLock|shutdownLock)\.`)

// sourceLineMatches reads "<file>:<line> +0x.." from the library tree and matches the line.
func sourceLineMatches(loc string, re *regexp.Regexp) bool {
	loc, _, _ = strings.Cut(loc, " ")
	file, line, ok := strings.Cut(loc, ":")
	if !ok {
		return false
	}
	b, err := os.ReadFile(file)
	if err != nil {
		return false
	}
	n, err := strconv.Atoi(line)
	lines := strings.Split(string(b), "\n")
	if err != nil || n < 1 || n > len(lines) {
		return false
	}
	return re.MatchString(lines[n-1])
}
