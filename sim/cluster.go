package memberlist

// Generic cluster-mode plan executor shared by the cluster scenarios, plus
// monitors that are evaluated at every quiescent driver step.

import (
	"fmt"
	"net"
	"runtime"
	"sort"
	"strings"
	"sync"
	"testing/synctest"
	"time"
)

type opRec struct {
	Op       Op
	CallT    time.Duration // instant the library call itself began (after harness gates)
	StartT   time.Duration
	EndT     time.Duration
	Done     bool
	Err      string
	Ret      int
	StartSeq int
	EndSeq   int
	Panic    string
}

type monitor interface {
	step(cx *clusterRun)
	finish(cx *clusterRun)
}

type clusterRun struct {
	c    *Ctx
	cl   *Cluster
	ops  []*opRec
	mons []monitor
	// bookkeeping of the "truth"
	crashT    map[int]time.Duration
	leaveT    map[int]time.Duration // Leave invoked
	leaveDone map[int]time.Duration
	restarts  map[int]int
	faultEnd  time.Duration
	lastOpT   time.Duration
	stepCount int
	heavyEvery int
	customOp  func(rec *opRec) bool
	allowAfterShutdown bool // C20: the query/send API may be called on a shut down instance
	mu        sync.Mutex // guards the bookkeeping maps (ops run on concurrent client goroutines)
}

func (cx *clusterRun) node(i int) *SimNode {
	if i < 0 || i >= len(cx.cl.nodes) {
		return nil
	}
	return cx.cl.nodes[i]
}

func ipFor(plan *Plan, idx int) net.IP {
	return nodeIP(idx)
}

// startClusterRun schedules all plan ops and installs the monitors.
func startClusterRun(c *Ctx, mons ...monitor) *clusterRun {
	plan := c.Plan
	cl := newCluster(c.Sim, plan)
	cx := &clusterRun{c: c, cl: cl, mons: mons, crashT: map[int]time.Duration{}, leaveT: map[int]time.Duration{}, leaveDone: map[int]time.Duration{}, restarts: map[int]int{}, heavyEvery: 1}
	for i := 0; i < plan.N; i++ {
		name := fmt.Sprintf("n%d", i)
		if i < len(plan.Names) && plan.Names[i] != "" {
			name = plan.Names[i]
		}
		cl.addNode(name, ipFor(plan, i), plan.Cfg)
	}
	for i := range plan.Ops {
		op := plan.Ops[i]
		rec := &opRec{Op: op}
		cx.ops = append(cx.ops, rec)
		if time.Duration(op.At) > cx.lastOpT {
			cx.lastOpT = time.Duration(op.At)
		}
		idx := i
		c.Sim.At(time.Duration(op.At), 1<<60, uint64(idx), fmt.Sprintf("op%d %s n%d", idx, op.Kind, op.Node), func() { cx.launch(rec) })
	}
	c.Sim.onStep = func() {
		cx.stepCount++
		for _, m := range cx.mons {
			m.step(cx)
		}
	}
	return cx
}

func (cx *clusterRun) launch(rec *opRec) {
	sim := cx.c.Sim
	rec.StartT = sim.Now()
	rec.StartSeq = sim.Steps
	go func() {
		defer func() {
			if r := recover(); r != nil {
				rec.Panic = fmt.Sprint(r)
			}
			rec.EndT = sim.Now()
			rec.EndSeq = sim.Steps
			rec.Done = true
		}()
		cx.execOp(rec)
	}()
}

func (cx *clusterRun) joinAddrs(l []int64) []string {
	var out []string
	for _, j := range l {
		if n := cx.node(int(j)); n != nil {
			out = append(out, net.JoinHostPort(n.ip.String(), fmt.Sprint(n.port)))
		}
	}
	return out
}

func (cx *clusterRun) setT(m map[int]time.Duration, k int, onlyIfAbsent bool) {
	cx.mu.Lock()
	if _, ok := m[k]; !ok || !onlyIfAbsent {
		m[k] = cx.c.Sim.Now()
	}
	cx.mu.Unlock()
}

func (cx *clusterRun) execOp(rec *opRec) {
	op := rec.Op
	n := cx.node(op.Node)
	if n == nil {
		rec.Err = "no such node"
		return
	}
	if cx.customOp != nil && cx.customOp(rec) {
		return
	}
	switch op.Kind {
	case "create":
		if n.created {
			rec.Err = "already created"
			return
		}
		if err := cx.cl.create(n, nil); err != nil {
			rec.Err = err.Error()
		}
	case "join":
		if n.m == nil || (!n.running() && !cx.allowAfterShutdown) {
			rec.Err = "not running"
			return
		}
		k, err := n.m.Join(cx.joinAddrs(op.L))
		rec.Ret = k
		if err != nil {
			rec.Err = err.Error()
		}
	case "crash":
		if !n.running() {
			rec.Err = "not running"
			return
		}
		cx.setT(cx.crashT, n.idx, false)
		n.crash(op.A == 1)
	case "restart":
		if !n.created || !n.crashed {
			rec.Err = "not crashed"
			return
		}
		// make sure the old instance is gone
		if !n.shutCalled && n.m != nil {
			n.shutCalled = true
			_ = n.m.Shutdown()
		}
		old := n.m
		_ = old
		n.m = nil
		n.crashed = false
		n.shutCalled = false
		n.created = false
		n.leftCalled = false
		n.mu.Lock()
		cx.mu.Lock()
		rn := cx.restarts[n.idx] + 1
		cx.mu.Unlock()
		n.meta = []byte(fmt.Sprintf("m-r%d-%s", rn, n.name))
		n.mu.Unlock()
		cx.mu.Lock()
		cx.restarts[n.idx]++
		delete(cx.crashT, n.idx)
		cx.mu.Unlock()
		if err := cx.cl.create(n, nil); err != nil {
			rec.Err = err.Error()
			return
		}
		if len(op.L) > 0 {
			k, err := n.m.Join(cx.joinAddrs(op.L))
			rec.Ret = k
			if err != nil {
				rec.Err = err.Error()
			}
		}
	case "restartas":
		// the crashed process comes back on the same address under a NEW name
		if !n.created || !n.crashed {
			rec.Err = "not crashed"
			return
		}
		if !n.shutCalled && n.m != nil {
			n.shutCalled = true
			_ = n.m.Shutdown()
		}
		cx.mu.Lock()
		nn := cx.cl.addNode(fmt.Sprintf("%sx%d", n.name, len(cx.cl.nodes)), n.ip, n.cfgp)
		cx.mu.Unlock()
		if err := cx.cl.create(nn, nil); err != nil {
			rec.Err = err.Error()
			return
		}
		if len(op.L) > 0 {
			k, err := nn.m.Join(cx.joinAddrs(op.L))
			rec.Ret = k
			if err != nil {
				rec.Err = err.Error()
			}
		}
	case "leave":
		if !n.running() {
			rec.Err = "not running"
			return
		}
		cx.mu.Lock()
		if !n.leftCalled {
			n.leftCalled = true
			n.leaveInc = n.m.incarnation.Load()
			cx.leaveT[n.idx] = cx.c.Sim.Now()
		}
		cx.mu.Unlock()
		n.leaveGate <- struct{}{}
		err := func() error {
			defer func() { <-n.leaveGate }()
			if n.shutCalled {
				return fmt.Errorf("skipped: Leave after Shutdown is documented to panic")
			}
			rec.CallT = cx.c.Sim.Now()
			return n.m.Leave(time.Duration(op.A) * time.Millisecond)
		}()
		if err != nil {
			rec.Err = err.Error()
		} else {
			cx.setT(cx.leaveDone, n.idx, true)
		}
	case "shutdown":
		if !n.created || n.m == nil {
			rec.Err = "not created"
			return
		}
		// never start a Shutdown while a Leave call is in progress on the harness
		// side of the gate but not yet inside the library (it would then run after
		// Shutdown, which is the documented panic)
		n.leaveGate <- struct{}{}
		n.shutCalled = true
		<-n.leaveGate
		cx.setT(cx.crashT, n.idx, true)
		n.shutGate <- struct{}{}
		err := func() error {
			defer func() { <-n.shutGate }()
			return n.m.Shutdown()
		}()
		if err != nil {
			rec.Err = err.Error()
		}
		cx.mu.Lock()
		if n.shutAt == 0 {
			n.shutAt = cx.c.Sim.Now()
			n.shutM = n.m
		}
		cx.mu.Unlock()
		n.crashed = true
		n.ep.mu.Lock()
		n.ep.down = true
		n.ep.mu.Unlock()
	case "update":
		if n.m == nil || (!n.running() && !cx.allowAfterShutdown) {
			rec.Err = "not running"
			return
		}
		n.mu.Lock()
		n.meta = []byte(op.S)
		n.mu.Unlock()
		if err := n.m.UpdateNode(time.Duration(op.A) * time.Millisecond); err != nil {
			rec.Err = err.Error()
		}
	case "bcast":
		n.mu.Lock()
		n.userBcast = append(n.userBcast, op.Buf)
		n.mu.Unlock()
	case "send", "sendrel":
		if n.m == nil || (!n.running() && !cx.allowAfterShutdown) {
			rec.Err = "not running"
			return
		}
		to := cx.node(int(op.B))
		if to == nil {
			return
		}
		node := &Node{Name: to.name, Addr: to.ip, Port: uint16(to.port)}
		// use the sender's own record when it has one (PMax for CRC etc.)
		for _, mm := range n.m.Members() {
			if mm.Name == to.name {
				node = mm
			}
		}
		var err error
		if op.Kind == "send" {
			err = n.m.SendBestEffort(node, op.Buf)
		} else {
			err = n.m.SendReliable(node, op.Buf)
		}
		if err != nil {
			rec.Err = err.Error()
		}
	case "members":
		if n.m == nil {
			return
		}
		for _, mm := range n.m.Members() {
			_ = mm.Name
			_ = mm.Address()
		}
	case "nummembers":
		if n.m != nil {
			rec.Ret = n.m.NumMembers()
		}
	case "localnode":
		if n.m != nil {
			ln := n.m.LocalNode()
			if ln == nil || ln.Name != n.name {
				rec.Err = fmt.Sprintf("LocalNode() = %+v", ln)
			}
		}
	case "health":
		if n.m != nil {
			rec.Ret = n.m.GetHealthScore()
		}
	case "protover":
		if n.m != nil {
			rec.Ret = int(n.m.ProtocolVersion())
		}
	case "ping":
		if n.m == nil {
			return
		}
		to := cx.node(int(op.B))
		if to == nil {
			return
		}
		if _, err := n.m.Ping(to.name, &net.UDPAddr{IP: to.ip, Port: to.port}); err != nil {
			rec.Err = err.Error()
		}
	case "sendaddr":
		if !n.running() {
			rec.Err = "not running"
			return
		}
		to := cx.node(int(op.B))
		if to == nil {
			return
		}
		if err := n.m.SendToAddress(Address{Addr: to.ep.addr, Name: to.name}, op.Buf); err != nil {
			rec.Err = err.Error()
		}
	case "setstate":
		n.mu.Lock()
		n.localState = op.Buf
		n.mu.Unlock()
	case "slowdelegate":
		n.mu.Lock()
		n.slowMsg = time.Duration(op.A)
		n.mu.Unlock()
	case "slow":
		n.ep.mu.Lock()
		n.ep.slowNs = op.A
		n.ep.mu.Unlock()
	default:
		rec.Err = "unknown op " + op.Kind
	}
}

// liveSet: nodes that are created, not crashed/shut down and have not left.
func (cx *clusterRun) liveSet() []*SimNode {
	var out []*SimNode
	for _, n := range cx.cl.nodes {
		if n.running() && n.m != nil && !n.leftCalled {
			out = append(out, n)
		}
	}
	return out
}

func (cx *clusterRun) runningSet() []*SimNode {
	var out []*SimNode
	for _, n := range cx.cl.nodes {
		if n.running() && n.m != nil {
			out = append(out, n)
		}
	}
	return out
}

// finish: run monitors' final checks, collect stats, tear everything down.
func (cx *clusterRun) finish() {
	for _, m := range cx.mons {
		m.finish(cx)
	}
	cx.teardown()
}

func (cx *clusterRun) teardown() {
	c := cx.c
	c.Sim.onStep = nil
	for k, v := range cx.cl.net.faults {
		c.Res.Faults[k] += v
	}
	for _, rec := range cx.ops {
		if rec.Panic != "" {
			c.Violate("api-panic", "", fmt.Sprintf("n%d", rec.Op.Node), "op %s panicked: %s", rec.Op.Kind, rec.Panic)
		}
	}
	if !c.Res.OK {
		c.Res.Logs = map[string][]string{}
		for _, n := range cx.cl.nodes {
			c.Res.Logs[n.name] = n.lastLogs(40)
		}
	}
	// stop the world
	c.Sim.Stop()
	for _, n := range cx.cl.nodes {
		if n.m != nil && !n.m.hasShutdown() {
			c.Sim.Direct(func() { _ = n.m.Shutdown() })
		}
	}
	cx.cl.net.closeAll()
	grace := 2*ms(cx.c.Plan.Cfg.TCPTimeoutMs) + 2*tProbe(cx.c.Plan.Cfg) + time.Second
	lib, har := cx.drainAndCheckLeaks(grace)
	for _, g := range lib {
		c.Violate("goroutine-leak", "", "", "library goroutine still blocked %v after shutdown of all nodes:\n%s", grace, g)
	}
	if len(har) > 0 && c.Res.HarnessErr == "" {
		c.Res.HarnessErr = "harness goroutine leaked:\n" + har[0]
		c.Res.OK = false
	}
}

func sortedCopy(xs []string) []string {
	o := append([]string(nil), xs...)
	sort.Strings(o)
	return o
}

func eqStrs(a, b []string) bool {
	if len(a) != len(b) {
		return false
	}
	for i := range a {
		if a[i] != b[i] {
			return false
		}
	}
	return true
}

// leakedGoroutines returns the stacks of goroutines in the current bubble
// (other than the caller) that are still alive. Call after a drain period.
func leakedGoroutines() []string {
	buf := make([]byte, 1<<20)
	for {
		n := runtime.Stack(buf, true)
		if n < len(buf) {
			buf = buf[:n]
			break
		}
		buf = make([]byte, 2*len(buf))
	}
	var out []string
	// only this run's bubble: a goroutine left blocked forever by an earlier run of the same
	// worker process (already reported there) must not be charged to this one
	bubble := ""
	for _, g := range strings.Split(string(buf), "\n\n") {
		head, _, _ := strings.Cut(g, "\n")
		if strings.Contains(head, "[running") {
			if i := strings.Index(head, "synctest bubble "); i >= 0 {
				bubble = strings.TrimRight(head[i:], "]:")
			}
			break
		}
	}
	for _, g := range strings.Split(string(buf), "\n\n") {
		head, _, _ := strings.Cut(g, "\n")
		if !strings.Contains(head, "synctest bubble") || strings.Contains(head, "[running") {
			continue
		}
		if bubble != "" && !strings.HasSuffix(strings.TrimRight(head, "]:"), bubble) {
			continue
		}
		if strings.Contains(g, "internal/synctest.Run(") || strings.Contains(g, "synctest.testingSynctestTest(") || strings.Contains(g, "testing.tRunner(") {
			continue
		}
		out = append(out, g)
	}
	return out
}

// drainAndCheckLeaks advances virtual time by grace and reports goroutines
// that are still blocked. lib=true when a leaked stack has library frames only
// below harness entry points.
func (cx *clusterRun) drainAndCheckLeaks(grace time.Duration) (lib []string, harness []string) {
	time.Sleep(grace)
	synctest.Wait()
	for _, g := range leakedGoroutines() {
		// harness goroutines: created by a harness function
		created := ""
		if i := strings.LastIndex(g, "created by "); i >= 0 {
			created = g[i:]
		}
		if strings.Contains(created, "zz_verif_") && !strings.Contains(g, repoRoot()+"/") {
			harness = append(harness, g)
		} else if strings.Contains(created, "zz_verif_") && strings.Contains(g, "memberlist.(*Memberlist)") {
			lib = append(lib, g) // API call blocked inside the library
		} else if strings.Contains(created, "zz_verif_") {
			harness = append(harness, g)
		} else {
			lib = append(lib, g)
		}
	}
	return
}
