package memberlist

// C12 — the wire pipeline round-trips every message under every configuration.

import (
	"bytes"
	"fmt"
	"net"
	"sort"
	"strings"
	"time"
)

func init() {
	register(&Scenario{Name: "C12", Gen: genC12, Exec: execC12})
}

func c12Payload(r *rng, tag string, udpBuf int) []byte {
	var body []byte
	switch r.intn(9) {
	case 0:
		body = nil
	case 1:
		body = r.bytes(1)
	case 2:
		body = r.bytes(r.pick(15, 16, 17, 31, 32, 33)) // AES block boundaries
	case 3:
		body = bytes.Repeat([]byte{byte(r.u64())}, r.pick(255, 256, 257, 4095, 4096, 4097)) // LZW dictionary boundaries, very compressible
	case 4:
		body = r.bytes(r.pick(100, 1000, 3000)) // incompressible
	case 5:
		body = r.bytes(udpBuf + r.pick(-40, -1, 0, 1)) // around the packet size
	case 6:
		body = []byte(strings.Repeat("abcabc", r.intn(300)))
	case 7:
		body = append([]byte{244, 3}, r.bytes(r.intn(30))...) // looks like a label header
	default:
		body = r.bytes(r.intn(200))
	}
	return append([]byte(tag+"|"), body...)
}

func genC12(c *Ctx) *Plan {
	r := c.R
	p := &Plan{N: r.rangeI(2, 3), Cfg: genCfg(r), P: map[string]int64{}}
	p.Cfg.HandoffDepth = 4096
	p.Cfg.ProtocolVersion = r.pick(1, 2, 3, 4, 5)
	p.Cfg.Encrypt = r.pick(0, 16, 24, 32)
	p.Cfg.NewTimeFormat = r.chance(0.5)
	if r.chance(0.3) {
		p.Cfg.Label = strings.Repeat("x", r.pick(1, 17, 255))
	}
	p.Cfg.PushPullMs = 1000
	if p.Cfg.Encrypt > 0 && r.chance(0.3) {
		// encryption roll-out mode: keys installed, traffic still sent and accepted in clear
		p.Cfg.VerifyIncoming, p.Cfg.VerifyOutgoing = false, false
		if r.chance(0.5) {
			p.Cfg.DisableTcpPings = true
		}
		p.P["rollout"] = 1
	}
	p.P["multikey"] = int64(r.intn(2))
	p.P["v6"] = int64(r.pick(0, 0, 1))
	n := p.N
	for i := 0; i < n; i++ {
		nl := r.pick(1, 2, 10, 64, 255)
		b := make([]byte, nl)
		for j := range b {
			b[j] = byte('a' + r.intn(26))
		}
		b[0] = byte('A' + i) // distinct
		p.Names = append(p.Names, string(b))
	}
	// fragmenting, reordering, but fault-free network
	p.Net.MinDelay = 1000
	p.Net.MaxDelay = int64(ms(p.Cfg.ProbeTimeoutMs)) / 8
	p.Net.StreamFrag = true
	p.Net.StreamDelay = int64(r.pick(0, 1000, 1_000_000))
	t := int64(1000)
	for i := 0; i < n; i++ {
		t += 1_000_000 + r.i64n(100_000_000)
		p.Ops = append(p.Ops, Op{At: t, Kind: "setstate", Node: i, Buf: c12Payload(r, fmt.Sprintf("S%d", i), p.Cfg.UDPBuf)})
		p.Ops = append(p.Ops, Op{At: t + 1, Kind: "create", Node: i})
	}
	for i := 1; i < n; i++ {
		p.Ops = append(p.Ops, Op{At: t + 1_000_000 + r.i64n(300_000_000), Kind: "join", Node: i, L: []int64{int64(r.intn(i))}})
	}
	base := t + 1_500_000_000
	dur := int64(8 * time.Second)
	k := r.rangeI(6, 30)
	for i := 0; i < k; i++ {
		at := base + r.i64n(dur)
		a := r.intn(n)
		b := (a + 1 + r.intn(n-1)) % n
		tag := fmt.Sprintf("%c%d", "BRAG"[r.intn(4)], i)
		switch tag[0] {
		case 'B':
			p.Ops = append(p.Ops, Op{At: at, Kind: "send", Node: a, B: int64(b), Buf: c12Payload(r, tag, p.Cfg.UDPBuf)})
		case 'R':
			p.Ops = append(p.Ops, Op{At: at, Kind: "sendrel", Node: a, B: int64(b), Buf: c12Payload(r, tag, p.Cfg.UDPBuf)})
		case 'A':
			p.Ops = append(p.Ops, Op{At: at, Kind: "sendaddr", Node: a, B: int64(b), Buf: c12Payload(r, tag, p.Cfg.UDPBuf)})
		case 'G':
			pl := c12Payload(r, tag, 300)
			if len(pl) > 400 {
				pl = pl[:400]
			}
			p.Ops = append(p.Ops, Op{At: at, Kind: "bcast", Node: a, Buf: pl})
		}
	}
	// bursts: several reliable messages reach the same receiver at the same instant, so that
	// the scheduler interleaves concurrent inbound stream handlers
	for b := 0; b < r.rangeI(0, 2); b++ {
		at := base + r.i64n(dur)
		to := r.intn(n)
		for j := 0; j < r.rangeI(2, 5); j++ {
			from := (to + 1 + r.intn(n-1)) % n
			p.Ops = append(p.Ops, Op{At: at + int64(j), Kind: "sendrel", Node: from, B: int64(to), Buf: c12Payload(r, fmt.Sprintf("R%d_%d", 900+b, j), p.Cfg.UDPBuf)})
		}
	}
	for i := 0; i < r.rangeI(0, 4); i++ {
		ml := r.pick(0, 1, 100, 511, 512)
		p.Ops = append(p.Ops, Op{At: base + r.i64n(dur), Kind: "update", Node: r.intn(n), A: 3000, S: string(r.bytes(ml))})
	}
	// UDP burst into a busy receiver: compressible best-effort messages of equal length pile up in
	// the hand-off queue while the application delegate is slow, so the listener decompresses the
	// next packets while earlier payloads are still waiting to be delivered
	if p.Cfg.Compression && r.chance(0.6) {
		at := base + r.i64n(dur)
		to := r.intn(n)
		sz := r.pick(200, 300, p.Cfg.UDPBuf/2)
		p.Ops = append(p.Ops, Op{At: at - 1_000_000, Kind: "slowdelegate", Node: to, A: int64(30 * time.Millisecond)})
		gap := int64(r.pick(1, 1000, 100_000))
		for j := 0; j < r.rangeI(3, 6); j++ {
			from := (to + 1 + r.intn(n-1)) % n
			body := append([]byte(fmt.Sprintf("B%d_%d|", 950, j)), bytes.Repeat([]byte{byte('a' + j)}, sz)...)
			p.Ops = append(p.Ops, Op{At: at + int64(j)*gap, Kind: "send", Node: from, B: int64(to), Buf: body})
		}
		p.Ops = append(p.Ops, Op{At: at + 500_000_000, Kind: "slowdelegate", Node: to, A: 0})
		p.P["udp_burst_busy_receiver"] = 1
	}
	p.P["end"] = base + dur + int64(6*time.Second)
	p.YieldOff = genYieldOff(r)
	return p
}

func execC12(c *Ctx) {
	p := c.Plan
	cx := startClusterRun(c, newEventMon(), &healthMon{}, &c04mon{})
	if p.param("rollout", 0) == 1 {
		c.Reach("encryption_rollout_mode")
	}
	if p.param("udp_burst_busy_receiver", 0) == 1 {
		c.Reach("udp_burst_busy_receiver")
	}
	// a stream handler may be descheduled for a moment right after the label stage while other
	// inbound streams are accepted (far below any protocol timeout)
	c.Sim.freezeSites = map[string]bool{"conn": true}
	c.Sim.freezeProb = 0.3
	c.Sim.freezeMax = 300 * time.Microsecond
	if p.param("v6", 0) == 1 {
		for _, n := range cx.cl.nodes {
			n.ip = net.ParseIP(fmt.Sprintf("fd00::%x", 0x10+n.idx))
		}
		c.Reach("ipv6_addresses")
	}
	k2 := simKey(16, 0x66)
	multikey := p.param("multikey", 0) == 1 && p.Cfg.Encrypt > 0
	cx.customOp = func(rec *opRec) bool {
		op := rec.Op
		n := cx.node(op.Node)
		if op.Kind == "create" && n != nil && !n.created && multikey {
			// every node installs both keys; odd nodes use the second as primary
			if err := cx.cl.create(n, func(conf *Config) {
				_ = conf.Keyring.AddKey(k2)
				if n.idx%2 == 1 {
					_ = conf.Keyring.UseKey(k2)
				}
			}); err != nil {
				rec.Err = err.Error()
			}
			return true
		}
		return false
	}
	end := time.Duration(p.param("end", int64(15*time.Second)))
	c.Sim.RunUntil(end, func() bool { return c.Failed() })
	if c.Failed() {
		cx.finish()
		return
	}
	// expectations
	type want struct {
		kind byte
		to   int
		buf  []byte
		err  string
	}
	var wants []want
	bcasts := map[string]bool{}
	states := map[string]bool{}
	for _, rec := range cx.ops {
		op := rec.Op
		switch op.Kind {
		case "send", "sendrel", "sendaddr":
			wants = append(wants, want{op.Buf[0], int(op.B), op.Buf, rec.Err})
		case "bcast":
			bcasts[string(op.Buf)] = true
		case "setstate":
			states[string(op.Buf)] = true
		}
	}
	sentTo := map[int]map[string]int{}
	for _, w := range wants {
		if sentTo[w.to] == nil {
			sentTo[w.to] = map[string]int{}
		}
		sentTo[w.to][string(w.buf)]++
	}
	delivered := 0
	for _, n := range cx.cl.nodes {
		if n.m == nil {
			continue
		}
		got := map[string]int{}
		n.mu.Lock()
		msgs := append([]msgRec(nil), n.msgs...)
		merged := append([]msgRec(nil), n.merged...)
		n.mu.Unlock()
		for _, m := range msgs {
			s := string(m.Buf)
			got[s]++
			if bcasts[s] {
				continue
			}
			if sentTo[n.idx][s] == 0 {
				c.Violate("payload-altered-or-misdelivered", "", n.name, "node %d's delegate received a %d-byte user payload (%q...) that no sender was given for it", n.idx, len(s), s[:min(len(s), 24)])
				cx.finish()
				return
			}
		}
		for s, k := range sentTo[n.idx] {
			delivered += got[s]
			if got[s] != k {
				c.Violate("user-message-lost-or-duplicated", "", n.name, "payload %q... (%d bytes) was sent to node %d %d time(s) on a loss-free network but delivered %d time(s)", s[:min(len(s), 16)], len(s), n.idx, k, got[s])
				cx.finish()
				return
			}
		}
		for _, m := range merged {
			if !states[string(m.Buf)] {
				c.Violate("user-state-altered", "", n.name, "MergeRemoteState got %d bytes (%q...) that no node's LocalState returned", len(m.Buf), string(m.Buf[:min(len(m.Buf), 16)]))
				cx.finish()
				return
			}
		}
		if len(merged) > 0 {
			c.Reach("user_state_merged")
		}
	}
	// membership entries equal what their owners announced
	for _, n := range cx.runningSet() {
		for _, mm := range n.m.Members() {
			var owner *SimNode
			for _, o := range cx.cl.nodes {
				if o.name == mm.Name {
					owner = o
				}
			}
			if owner == nil || owner.m == nil {
				c.Violate("unknown-member", "", n.name, "%s lists unknown member %q", n.name, mm.Name)
				continue
			}
			owner.mu.Lock()
			wantMeta := append([]byte(nil), owner.meta...)
			owner.mu.Unlock()
			vs := owner.conf.BuildVsnArray()
			if !mm.Addr.Equal(owner.ip) || int(mm.Port) != owner.port || !bytes.Equal(mm.Meta, wantMeta) || mm.PMin != vs[0] || mm.PMax != vs[1] || mm.PCur != vs[2] || mm.DMin != vs[3] || mm.DMax != vs[4] || mm.DCur != vs[5] {
				c.Violate("member-entry-differs-from-announcement", "", n.name, "%s's entry for %q: addr %s:%d meta %d bytes vsn %v; owner announced %s:%d meta %d bytes vsn %v", n.name, trunc(mm.Name), mm.Addr, mm.Port, len(mm.Meta), []uint8{mm.PMin, mm.PMax, mm.PCur, mm.DMin, mm.DMax, mm.DCur}, owner.ip, owner.port, len(wantMeta), vs)
			}
		}
		if len(n.m.Members()) != len(cx.runningSet()) {
			c.Violate("member-missing", "", n.name, "%s lists %d members, %d nodes run on a fault-free network", n.name, len(n.m.Members()), len(cx.runningSet()))
		}
	}
	for _, w := range wants {
		if w.err != "" {
			c.Violate("send-failed", "", "", "send of %d bytes failed on a fault-free network: %s", len(w.buf), w.err)
			break
		}
	}
	c.ReachN("stream_handler_descheduled", c.Sim.frozen)
	c.Res.Nontrivial = delivered > 0
	c.Stat("user_messages_delivered", int64(delivered))
	var sizes []int
	for _, w := range wants {
		sizes = append(sizes, len(w.buf))
	}
	sort.Ints(sizes)
	c.Res.Sample = map[string]any{"n": p.N, "proto": p.Cfg.ProtocolVersion, "enc": p.Cfg.Encrypt, "label_len": len(p.Cfg.Label), "compress": p.Cfg.Compression, "multikey": multikey, "payload_sizes": sizes, "name_lens": []int{len(p.Names[0]), len(p.Names[1])}}
	cx.finish()
}
