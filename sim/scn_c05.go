package memberlist

// C05 — views re-converge to the live set once faults stop.
// C07 — the same histories with the event-log monitors as the deciding oracle.

import (
	"net"
	"fmt"
	"math"
	"os"
	"sort"
	"time"
)

func init() {
	register(&Scenario{Name: "C05", Gen: genC05, Exec: execC05})
	register(&Scenario{Name: "C07", Gen: genC05, Exec: execC05})
}

func genC05(c *Ctx) *Plan {
	r := c.R
	p := &Plan{N: r.rangeI(3, 8), Cfg: genCfg(r), P: map[string]int64{}}
	p.Cfg.PushPullMs = r.pick(1000, 2000, 3000)
	p.Cfg.GossipToDeadMs = r.pick(2000, 5000, 10000)
	n := p.N
	t := int64(1000)
	for i := 0; i < n; i++ {
		t += 1_000_000 + r.i64n(300_000_000)
		p.Ops = append(p.Ops, Op{At: t, Kind: "create", Node: i})
	}
	for i := 1; i < n; i++ {
		jt := t + 1_000_000 + r.i64n(2_000_000_000)
		p.Ops = append(p.Ops, Op{At: jt, Kind: "join", Node: i, L: []int64{int64(r.intn(i))}})
	}
	faultStart := t + 3_000_000_000
	faultDur := int64(time.Duration(r.rangeI(5, 60)) * time.Second)
	tf := faultStart + faultDur
	p.P["tf"] = tf
	p.Net.Until = tf
	p.Net.Loss = []float64{0, 0.05, 0.1, 0.3, 0.5}[r.intn(5)]
	p.Net.Dup = []float64{0, 0, 0.05, 0.2}[r.intn(4)]
	p.Net.MinDelay = 10_000
	p.Net.MaxDelay = int64(ms(p.Cfg.ProbeTimeoutMs)) / int64(r.pick(1, 2, 4, 10))
	p.Net.HeavyTail = []float64{0, 0, 0.02, 0.1}[r.intn(4)]
	p.Net.StreamCut = []float64{0, 0.1, 0.3}[r.intn(3)]
	p.Net.StreamStall = []float64{0, 0, 0.1}[r.intn(3)]
	p.Net.DialRefuse = []float64{0, 0, 0.2}[r.intn(3)]
	p.Net.StreamFrag = r.chance(0.5)
	// partitions
	for k := 0; k < r.rangeI(0, 3); k++ {
		var a []int
		for i := 0; i < n; i++ {
			if r.chance(0.4) {
				a = append(a, i)
			}
		}
		if len(a) == 0 || len(a) == n {
			continue
		}
		from := faultStart + r.i64n(faultDur)
		to := from + r.i64n(faultDur)
		if to > tf {
			to = tf
		}
		p.Net.Parts = append(p.Net.Parts, Partition{From: from, To: to, A: a, UDP: true, TCP: r.chance(0.6), OneWay: r.chance(0.3)})
	}
	// node faults during the faulty phase
	crashed := map[int]bool{}
	left := map[int]bool{}
	nf := r.rangeI(0, 5)
	for k := 0; k < nf; k++ {
		at := faultStart + r.i64n(faultDur)
		node := r.intn(n)
		switch r.intn(6) {
		case 0, 1:
			if !crashed[node] && !left[node] && len(crashed)+len(left) < n-2 {
				crashed[node] = true
				sd := int64(r.intn(2))
				p.Ops = append(p.Ops, Op{At: at, Kind: "crash", Node: node, A: sd})
				if r.chance(0.6) {
					// same-address restart with reset incarnation and new meta
					rt := at + 100_000_000 + r.i64n(faultDur)
					if rt < tf-1_000_000 {
						var l []int64
						for j := 0; j < n; j++ {
							if j != node && !crashed[j] && r.chance(0.7) {
								l = append(l, int64(j))
							}
						}
						if len(l) == 0 {
							l = []int64{int64((node + 1) % n)}
						}
						if r.chance(0.45) {
							// same address, new node name: the old name must still be detected as failed
							// (also by the TCP fallback ping, which the new process must not answer for it)
							if r.chance(0.7) {
								rt = at + 20_000_000 + r.i64n(800_000_000) // back before anybody noticed the crash
							}
							p.Ops = append(p.Ops, Op{At: rt, Kind: "restartas", Node: node, L: l})
							p.P["renamed"] = 1
							p.Cfg.DisableTcpPings = false
						} else {
							if r.chance(0.25) {
								// the process comes back quickly and joins nobody (it waits to be contacted): its
								// fresh instance lists only itself while the others still list - and soon suspect -
								// the name; everything it has to say travels on the acks it sends to its probers
								l = nil
								rt = at + 20_000_000 + r.i64n(int64(sMin(p.Cfg, n))+1) // anywhere inside the others' suspicion window
								if rt >= tf-1_000_000 {
									rt = tf - 2_000_000
								}
								p.P["restart_without_join"] = 1
							}
							if l != nil && r.chance(0.35) {
								// back before anybody noticed the crash: nobody gossips anything about the node, so the
								// stale record the others hold (old metadata, same incarnation) reaches the new instance
								// only inside push/pull state - where it must be refuted just the same
								rt = at + 20_000_000 + r.i64n(int64(ms(p.Cfg.ProbeIntervalMs))*8/10)
								if rt >= tf-1_000_000 {
									rt = tf - 2_000_000
								}
								p.P["quick_restart"] = 1
							}
							p.Ops = append(p.Ops, Op{At: rt, Kind: "restart", Node: node, L: l})
							crashed[node] = false
						}
					}
				}
			}
		case 2:
			if !crashed[node] && !left[node] && len(crashed)+len(left) < n-2 {
				left[node] = true
				p.Ops = append(p.Ops, Op{At: at, Kind: "leave", Node: node, A: 3000})
				if r.chance(0.5) {
					p.Ops = append(p.Ops, Op{At: at + 3_500_000_000, Kind: "shutdown", Node: node})
				}
			}
		case 3, 4:
			p.Ops = append(p.Ops, Op{At: at, Kind: "update", Node: node, A: 2000, S: fmt.Sprintf("meta-%d-%d", node, k)})
		case 5:
			p.Ops = append(p.Ops, Op{At: at, Kind: "slow", Node: node, A: int64(ms(p.Cfg.ProbeTimeoutMs)) * int64(r.pick(1, 2, 3))})
			p.Ops = append(p.Ops, Op{At: tf - 1000, Kind: "slow", Node: node, A: 0})
		}
	}
	sort.SliceStable(p.Ops, func(i, j int) bool { return p.Ops[i].At < p.Ops[j].At })
	p.P["freeze_us"] = int64(r.pick(0, 0, 200, 5000, 50000))
	p.YieldOff = genYieldOff(r)
	p.Cfg.AliveDel = r.chance(0.5) // an accepting AliveDelegate: a preemption point if it is ever called without the node lock
	return p
}

// settleBudget is the W of DESIGN §3 C05.
func settleBudget(cp CfgPlan, n int) time.Duration {
	k := 1.0
	if n > 2 {
		k = math.Ceil(math.Log(1e-12) / math.Log(float64(n-2)/float64(n-1)))
	}
	if k < 10 {
		k = 10
	}
	return 3*detectBound(cp, n) + time.Duration(k)*(ms(cp.PushPullMs)+time.Millisecond) + ms(cp.GossipToDeadMs)
}

func execC05(c *Ctx) {
	p := c.Plan
	c07 := p.Scn == "C07"
	em := newEventMon()
	cx := startClusterRun(c, em, &healthMon{}, newMonoMon(ms(p.Cfg.GossipToDeadMs)), newSelfMon())
	tf := time.Duration(p.param("tf", int64(20*time.Second)))
	if fz := p.param("freeze_us", 0); fz > 0 {
		// slow / descheduled goroutines during the faulty phase: message handlers, stream
		// handlers and timer callbacks may sit parked while virtual time passes
		c.Sim.freezeSites = map[string]bool{"alive": true, "suspect": true, "dead": true, "conn": true, "handoff": true, "susptimeout2": true, "leave2": true, "update": true}
		c.Sim.freezeProb = 0.08
		c.Sim.freezeMax = time.Duration(fz) * time.Microsecond
		c.Sim.freezeUntil = tf
	}
	c.Sim.RunUntil(tf+time.Millisecond, func() bool { return c.Failed() })
	if c.Failed() {
		cx.finish()
		return
	}
	// make links perfect from here on (Until already stops probabilistic faults)
	for _, n := range cx.cl.nodes {
		if n.ep != nil {
			n.ep.mu.Lock()
			n.ep.slowNs = 0
			n.ep.mu.Unlock()
		}
	}
	if os.Getenv("VERIF_DEBUG") != "" {
		cx.cl.net.tapFn = func(r *tapRec) {
			var from *SimNode
			for _, n := range cx.cl.nodes {
				if n.name == r.From {
					from = n
				}
			}
			if from == nil || r.Stream {
				return
			}
			ms, err := decodePacket(from.conf, r.Buf)
			var ts []string
			for _, m := range ms {
				ts = append(ts, fmt.Sprint(m.Type))
			}
			fmt.Fprintf(os.Stderr, "DEBUG %v %s -> %s types=%v err=%v accepted=%v\n", r.T, r.From, r.To, ts, err, r.Accepted)
		}
	}
	live := cx.liveSet()
	// after T_f: where does every alive message a live node issues about itself go? (known finding
	// C05/refutation-gossiped-only-to-crashed-members, evaluated when a run does not converge)
	selfAliveTo := map[string]map[uint32]map[string]bool{} // owner -> incarnation -> live destinations
	if os.Getenv("VERIF_DEBUG") == "" {
		liveAddr := map[string]string{}
		for _, n := range live {
			liveAddr[fmt.Sprintf("%s:%d", n.ip, n.port)] = n.name
		}
		cx.cl.net.tapFn = func(r *tapRec) {
			if r.Stream {
				return
			}
			var from *SimNode
			for _, n := range live {
				if n.name == r.From {
					from = n
				}
			}
			if from == nil || from.conf == nil {
				return
			}
			msgs, err := decodePacket(from.conf, r.Buf)
			if err != nil {
				return
			}
			for _, wm := range msgs {
				if wm.Type != aliveMsg {
					continue
				}
				var a alive
				if decode(wm.Body, &a) != nil {
					continue
				}
				if _, isLive := liveAddr[fmt.Sprintf("%s:%d", net.IP(a.Addr), a.Port)]; !isLive {
					continue
				}
				if selfAliveTo[a.Node] == nil {
					selfAliveTo[a.Node] = map[uint32]map[string]bool{}
				}
				if selfAliveTo[a.Node][a.Incarnation] == nil {
					selfAliveTo[a.Node][a.Incarnation] = map[string]bool{}
				}
				if dst, ok := liveAddr[r.To]; ok && dst != a.Node {
					selfAliveTo[a.Node][a.Incarnation][dst] = true
				}
			}
		}
	}
	pendingAtTf := false
	for _, a := range live {
		for _, b := range live {
			if a != b && a.view(b.name).State == StateSuspect {
				pendingAtTf = true
			}
		}
	}
	// refutationLost: some live node does not hold live node b alive at b's current incarnation,
	// b has refuted (incarnation above the one it started with after T_f is not required: above 1),
	// and no packet carrying b's alive at that incarnation was ever addressed to a live node
	refutationLost := func() (bool, string) {
		if os.Getenv("VERIF_DEBUG2") != "" {
			fmt.Fprintf(os.Stderr, "DBG2 pending=%v selfAliveTo=%v\n", pendingAtTf, selfAliveTo)
			for _, a := range live {
				for _, b := range live {
					fmt.Fprintf(os.Stderr, "DBG2 %s view of %s: %s (cur %d)\n", a.name, b.name, a.view(b.name), b.m.incarnation.Load())
				}
			}
		}
		if !pendingAtTf {
			return false, ""
		}
		for _, b := range live {
			cur := b.m.incarnation.Load()
			if _, issued := selfAliveTo[b.name][cur]; !issued || len(selfAliveTo[b.name][cur]) > 0 {
				continue // no refutation after T_f, or at least one copy was addressed to a live member
			}
			for _, a := range live {
				if a == b {
					continue
				}
				v := a.view(b.name)
				if lists := v.Present && (v.State == StateAlive || v.State == StateSuspect); cur > 1 && (!lists || (v.Inc < cur && v.State != StateAlive)) {
					return true, fmt.Sprintf("%s holds %s as %s; %s refuted at incarnation %d but every packet carrying that alive message went to members that had crashed", a.name, b.name, v, b.name, cur)
				}
			}
		}
		return false, ""
	}
	var dbgDump func()
	dbgNext := []time.Duration{tf + time.Second, tf + 3*time.Second, tf + 8*time.Second, tf + 20*time.Second}
	if os.Getenv("VERIF_DEBUG") != "" {
		dump := func() {
			for _, n := range live {
				n.m.nodeLock.RLock()
				var parts []string
				for name := range n.m.nodeMap {
					v := viewLocked(n.m, name)
					parts = append(parts, fmt.Sprintf("%s=%s@%d", name, stateName(v.State), v.Inc))
				}
				n.m.nodeLock.RUnlock()
				sort.Strings(parts)
				fmt.Fprintf(os.Stderr, "VIEW t=%v %s: %v\n", c.Sim.Now(), n.name, parts)
			}
		}
		dump()
		dbgDump = dump
	}
	liveNames := map[string]*SimNode{}
	for _, n := range live {
		liveNames[n.name] = n
	}
	// precondition: the undirected "lists" graph on live nodes is connected
	connectedBy := func(edgeOK func(h *SimNode, peer string) bool) bool {
		if len(live) <= 1 {
			return true
		}
		adj := map[string]map[string]bool{}
		for _, n := range live {
			for _, m := range n.memberNames() {
				if edgeOK != nil && !edgeOK(n, m) {
					continue
				}
				if _, ok := liveNames[m]; ok && m != n.name {
					if adj[n.name] == nil {
						adj[n.name] = map[string]bool{}
					}
					if adj[m] == nil {
						adj[m] = map[string]bool{}
					}
					adj[n.name][m] = true
					adj[m][n.name] = true
				}
			}
		}
		seen := map[string]bool{live[0].name: true}
		st := []string{live[0].name}
		for len(st) > 0 {
			x := st[len(st)-1]
			st = st[:len(st)-1]
			for y := range adj[x] {
				if !seen[y] {
					seen[y] = true
					st = append(st, y)
				}
			}
		}
		return len(seen) == len(live)
	}
	connected := func(aliveOnly bool) bool {
		if !aliveOnly {
			return connectedBy(nil)
		}
		return connectedBy(func(h *SimNode, peer string) bool { return h.view(peer).State == StateAlive })
	}
	pre := connected(false)
	if !pre {
		c.Reach("precondition_false")
	}
	// Known finding C05/connected-only-via-suspect-record: the lists-graph is connected at T_f
	// only through records that are *suspect* (a suspicion that began during the faults).
	// heldDead: h holds (or held, before reaping it) peer as dead/left - as opposed to a fresh
	// instance that simply never heard of peer. The known findings below are all about a side that
	// holds the other side *dead* and therefore never contacts it; an instance that does not know
	// the other side at all (restart whose join failed) is refuted through the acks it sends to
	// its probers and must converge.
	heldDead := func(h *SimNode, peer string) bool {
		v := h.view(peer)
		if v.Present {
			return v.State == StateDead || v.State == StateLeft
		}
		h.mu.Lock()
		defer h.mu.Unlock()
		for _, e := range h.events[h.genStart:] {
			if e.Name == peer {
				return true // knew it in this life and has reaped the record since
			}
		}
		return false
	}
	// neverKnew: some live node lists a live peer that has never heard of it in its current life
	neverKnew := false
	for _, h := range live {
		for _, peer := range h.memberNames() {
			if o := liveNames[peer]; o != nil && o != h && !o.view(h.name).Present && !heldDead(o, h.name) {
				neverKnew = true
			}
		}
	}
	sig := ""
	if pre && !connected(true) && !neverKnew {
		sig = "C05/connected-only-via-suspect-record"
		c.Reach("connected_only_via_suspect_record")
	}
	// Known finding C05/connected-only-via-stale-incarnation-record: every connecting record is
	// suspect, or alive at an incarnation k the peer has already left behind while an accusation
	// (suspect/dead) at that same k is still held by a live node. Such an accusation overrides the
	// stale alive record wherever it arrives, and the accused ignores it (k is below its own
	// incarnation) instead of refuting again; the refutation it issued earlier has used up its
	// retransmissions, and the accused never contacts the holder, which it records as dead.
	if pre && sig == "" && !neverKnew {
		accusedAt := func(peer string, k uint32) bool {
			for _, n := range live {
				v := n.view(peer)
				if v.Present && v.Inc == k && (v.State == StateSuspect || v.State == StateDead) {
					return true
				}
			}
			return false
		}
		sound := connectedBy(func(h *SimNode, peer string) bool {
			v := h.view(peer)
			owner := liveNames[peer]
			if owner == nil || owner.m == nil {
				return true // not an edge between live nodes; ignored by the caller
			}
			if v.State != StateAlive {
				return false
			}
			cur := owner.m.incarnation.Load()
			return v.Inc >= cur || !accusedAt(peer, v.Inc)
		})
		if !sound {
			sig = "C05/connected-only-via-stale-incarnation-record"
			c.Reach("connected_only_via_stale_incarnation_record")
		}
	}
	// Known finding C05/connected-only-via-one-directional-records (generalises the two above):
	// no record that connects the two sides is mutual - one side lists the other, the other side
	// holds the lister as dead. The side that holds the other dead never initiates contact; the
	// listing side keeps its record only as long as no probe started during the faults fails after
	// T_f (or any other suspicion arises), because the refutation is gossiped by a node that
	// believes the suspecting node dead and reaches it only by chance.
	if pre && sig == "" && !neverKnew {
		mutual := connectedBy(func(h *SimNode, peer string) bool {
			owner := liveNames[peer]
			if owner == nil || owner.m == nil {
				return true
			}
			v := owner.view(h.name)
			return v.Present && (v.State == StateAlive || v.State == StateSuspect)
		})
		if !mutual {
			sig = "C05/connected-only-via-one-directional-records"
			c.Reach("connected_only_via_one_directional_records")
		}
	}
	converged := func() (bool, string) {
		for _, n := range live {
			got := n.m.Members()
			if len(got) != len(live) {
				return false, fmt.Sprintf("%s lists %v, live set is %v", n.name, n.memberNames(), namesOf(live))
			}
			for _, mm := range got {
				owner, ok := liveNames[mm.Name]
				if !ok {
					return false, fmt.Sprintf("%s lists %s which is not live", n.name, mm.Name)
				}
				owner.mu.Lock()
				want := string(owner.meta)
				owner.mu.Unlock()
				if string(mm.Meta) != want {
					return false, fmt.Sprintf("%s has meta %q for %s, owner's latest is %q", n.name, mm.Meta, mm.Name, want)
				}
				if !mm.Addr.Equal(owner.ip) {
					return false, fmt.Sprintf("%s has address %s for %s", n.name, mm.Addr, mm.Name)
				}
			}
			n.m.nodeLock.RLock()
			for name, st := range n.m.nodeMap {
				if st.State == StateSuspect {
					n.m.nodeLock.RUnlock()
					return false, fmt.Sprintf("%s still suspects %s", n.name, name)
				}
			}
			n.m.nodeLock.RUnlock()
		}
		return true, ""
	}
	w := settleBudget(p.Cfg, p.N)
	if c07 && w > 60*time.Second {
		w = 60 * time.Second
	}
	var convAt time.Duration = -1
	dbgQ := map[string]int{}
	c.Sim.RunUntil(tf+w, func() bool {
		if c.Failed() {
			return true
		}
		if dbgDump != nil && len(dbgNext) > 0 && c.Sim.Now() >= dbgNext[0] {
			dbgNext = dbgNext[1:]
			dbgDump()
		}
		if os.Getenv("VERIF_DEBUG2") != "" {
			for _, n := range live {
				q := n.m.broadcasts.NumQueued()
				if dbgQ[n.name] != q {
					fmt.Fprintf(os.Stderr, "DBG2 t=%v %s queued=%d (was %d) numNodes=%d\n", c.Sim.Now(), n.name, q, dbgQ[n.name], n.m.estNumNodes())
					dbgQ[n.name] = q
				}
			}
		}
		if cx.stepCount%16 != 0 {
			return false
		}
		if ok, _ := converged(); ok {
			convAt = c.Sim.Now()
			return true
		}
		return false
	})
	if !c.Failed() && !c07 && pre && len(live) >= 1 {
		ok, why := converged()
		if !ok {
			if lost, how := refutationLost(); sig == "" && lost {
				sig = "C05/refutation-gossiped-only-to-crashed-members"
				c.Reach("refutation_gossiped_only_to_crashed_members")
				why += "; " + how
			}
			c.Violate("not-converged", sig, "", "live views did not converge within W=%v after faults stopped at %v: %s", w, tf, why)
		}
	}
	if convAt >= 0 {
		c.Stat("max_converge_ms", int64((convAt-tf)/time.Millisecond))
		// "None sticks": a probe that began during the faulty phase may still fail up to one
		// awareness-scaled probe interval after T_f and raise a (refutable) suspicion, so the
		// stability verdict is taken once no such probe can be in flight any more; a transient
		// re-divergence is only a violation if the views have not re-converged by T_f + W.
		settle := tf + tProbe(p.Cfg)
		if c.Sim.Now() > settle {
			settle = c.Sim.Now()
		}
		c.Sim.RunUntil(settle+3*ms(p.Cfg.ProbeIntervalMs)+ms(p.Cfg.PushPullMs), func() bool { return c.Failed() })
		if ok, _ := converged(); !ok && !c07 && !c.Failed() && pre {
			c.Reach("transient_redivergence")
			c.Sim.RunUntil(tf+w, func() bool {
				if c.Failed() {
					return true
				}
				if cx.stepCount%16 != 0 {
					return false
				}
				ok, _ := converged()
				return ok
			})
			if ok, why := converged(); !ok && !c.Failed() {
				if lost, how := refutationLost(); sig == "" && lost {
					sig = "C05/refutation-gossiped-only-to-crashed-members"
					c.Reach("refutation_gossiped_only_to_crashed_members")
					why += "; " + how
				}
				c.Violate("not-converged", sig, "", "views converged %v after faults stopped, diverged again and had not re-converged by T_f+W (W=%v): %s", convAt-tf, w, why)
			}
		}
	}
	if p.param("renamed", 0) == 1 {
		c.Reach("restart_under_new_name")
	}
	if p.param("restart_without_join", 0) == 1 {
		c.Reach("restart_without_join")
	}
	if p.param("quick_restart", 0) == 1 {
		c.Reach("restart_before_the_crash_was_noticed")
	}
	c.Res.Faults["goroutine_descheduled"] += c.Sim.frozen
	c.Res.Nontrivial = pre && len(live) >= 2 && (len(cx.cl.net.faults) > 0)
	c.Stat("budget_ms", int64(w/time.Millisecond))
	c.Stat("live", int64(len(live)))
	c.Res.Sample = map[string]any{"n": p.N, "live": len(live), "tf_ms": tf / time.Millisecond, "loss": p.Net.Loss, "parts": len(p.Net.Parts), "ops": len(p.Ops), "converged_after_ms": (convAt - tf) / time.Millisecond}
	cx.finish()
}

func namesOf(ns []*SimNode) []string {
	var o []string
	for _, n := range ns {
		o = append(o, n.name)
	}
	sort.Strings(o)
	return o
}
