package memberlist

// C15 — outbound confidentiality: every buffer handed to the transport is an
// AES-GCM ciphertext under the sender's current primary key (label as AAD).
// C17R — zero-downtime key rotation across a cluster (uses the same tap oracle).

import (
	"testing/synctest"
	"crypto/aes"
	"crypto/cipher"
	"fmt"
	"net"
	"sort"
	"time"
)

func init() {
	register(&Scenario{Name: "C15", Gen: genC15, Exec: execC15})
	register(&Scenario{Name: "C17R", Gen: genC17R, Exec: execC17R})
}

// independent AES-GCM open (stdlib only)
func gcmOpen(key, nonce, ct, aad []byte) ([]byte, error) {
	blk, err := aes.NewCipher(key)
	if err != nil {
		return nil, err
	}
	g, err := cipher.NewGCM(blk)
	if err != nil {
		return nil, err
	}
	return g.Open(nil, nonce, ct, aad)
}

type confTap struct {
	c        *Ctx
	cx       *clusterRun
	byName   map[string]*SimNode
	connSeen map[string]int // conn id + sender -> writes seen
	reported bool
	bufs     int64
}

func newConfTap(c *Ctx, cx *clusterRun) *confTap {
	t := &confTap{c: c, cx: cx, byName: map[string]*SimNode{}, connSeen: map[string]int{}}
	for _, n := range cx.cl.nodes {
		t.byName[n.name] = n
	}
	cx.cl.net.tapFn = t.onTap
	return t
}

func (t *confTap) fail(n *SimNode, r *tapRec, why string) {
	if t.reported {
		return
	}
	t.reported = true
	kind := "packet"
	if r.Stream {
		kind = "stream write"
	}
	t.c.Violate("cleartext-on-wire", "", n.name, "%s from %s to %s (%d bytes, first bytes %x) is not an AES-GCM ciphertext under the sender's current primary key with its label as associated data: %s", kind, n.name, r.To, len(r.Buf), r.Buf[:min(len(r.Buf), 32)], why)
}

func (t *confTap) classify(n *SimNode, plain []byte, stream bool) {
	// reach probe: which message types were seen sealed on which path
	var walk func(b []byte, d int)
	walk = func(b []byte, d int) {
		if len(b) == 0 || d > 6 {
			return
		}
		mt := messageType(b[0])
		switch mt {
		case hasCrcMsg:
			if len(b) > 5 {
				walk(b[5:], d+1)
			}
		case compoundMsg:
			if _, parts, err := decodeCompoundMessage(b[1:]); err == nil {
				for _, p := range parts {
					walk(p, d+1)
				}
			}
		case compressMsg:
			if pl, err := decompressPayload(b[1:]); err == nil {
				walk(pl, d+1)
			}
		default:
			path := "pkt"
			if stream {
				path = "stream"
			}
			t.c.Reach(fmt.Sprintf("sealed_%s_type%d", path, mt))
		}
	}
	walk(plain, 0)
}

func (t *confTap) onTap(r *tapRec) {
	n := t.byName[r.From]
	if n == nil || n.conf == nil || n.conf.Keyring == nil || !r.Accepted {
		return
	}
	t.bufs++
	label := n.conf.Label
	key := n.conf.Keyring.GetPrimaryKey()
	if key == nil {
		return // no key installed (yet): nothing to seal with, the statement does not apply
	}
	buf := r.Buf
	if !r.Stream {
		if label != "" {
			hdr := makeLabelHeader(label, nil)
			if len(buf) < len(hdr) || string(buf[:len(hdr)]) != string(hdr) {
				t.fail(n, r, "label header missing")
				return
			}
			buf = buf[len(hdr):]
		}
		if len(buf) < 1+12+16 || buf[0] > 1 {
			t.fail(n, r, "too short / no encryption version byte")
			return
		}
		plain, err := gcmOpen(key, buf[1:13], buf[13:], []byte(label))
		if err != nil {
			t.fail(n, r, "does not open under the current primary key: "+err.Error())
			return
		}
		t.classify(n, plain, false)
		return
	}
	// stream write: the dialer's first write may be exactly the cleartext label header
	ck := fmt.Sprintf("%d/%s", r.Conn, r.From)
	t.connSeen[ck]++
	if label != "" && t.connSeen[ck] == 1 {
		if string(buf) == string(makeLabelHeader(label, nil)) {
			return
		}
	}
	if len(buf) < 5+1+12+16 || messageType(buf[0]) != encryptMsg {
		t.fail(n, r, "stream frame does not start with the encrypt marker")
		return
	}
	ln := int(buf[1])<<24 | int(buf[2])<<16 | int(buf[3])<<8 | int(buf[4])
	if ln != len(buf)-5 {
		t.fail(n, r, fmt.Sprintf("length prefix %d does not cover the whole write (%d bytes follow)", ln, len(buf)-5))
		return
	}
	aad := append(append([]byte(nil), buf[:5]...), []byte(label)...)
	ct := buf[5:]
	if ct[0] > 1 {
		t.fail(n, r, "bad encryption version byte")
		return
	}
	plain, err := gcmOpen(key, ct[1:13], ct[13:], aad)
	if err != nil {
		t.fail(n, r, "does not open under the current primary key: "+err.Error())
		return
	}
	t.classify(n, plain, true)
}

func genC15(c *Ctx) *Plan {
	r := c.R
	p := &Plan{N: r.rangeI(3, 6), Cfg: genCfg(r), P: map[string]int64{}}
	p.Cfg.Encrypt = r.pick(16, 24, 32)
	p.Cfg.IndirectChecks = r.rangeI(1, 3)
	p.Cfg.DisableTcpPings = false
	p.Cfg.ProtocolVersion = r.pick(1, 2, 3, 4, 5)
	p.Cfg.HandoffDepth = 1024
	n := p.N
	p.Net.MinDelay = 1000
	p.Net.MaxDelay = int64(ms(p.Cfg.ProbeTimeoutMs)) / 8
	t := int64(1000)
	for i := 0; i < n; i++ {
		t += 1_000_000 + r.i64n(200_000_000)
		p.Ops = append(p.Ops, Op{At: t, Kind: "create", Node: i})
	}
	for i := 1; i < n; i++ {
		p.Ops = append(p.Ops, Op{At: t + 1_000_000 + r.i64n(800_000_000), Kind: "join", Node: i, L: []int64{int64(r.intn(i))}})
	}
	base := t + 2_000_000_000
	dur := int64(time.Duration(r.rangeI(15, 40)) * time.Second)
	// UDP-only partition of one node for a while: forces indirect pings, nacks, relays, TCP fallback, suspicion + refutation
	v := r.intn(n)
	from := base + r.i64n(dur/3)
	p.Net.Parts = append(p.Net.Parts, Partition{From: from, To: from + int64(ms(p.Cfg.ProbeIntervalMs))*int64(r.rangeI(3, 8)), A: []int{v}, UDP: true, TCP: r.chance(0.3), OneWay: r.chance(0.4)})
	p.Net.Loss = []float64{0, 0.05, 0.15}[r.intn(3)]
	p.Net.Until = base + dur
	// a peer that stops reading mid-stream: the write times out after partial progress
	p.Net.StreamBlock = []float64{0, 0.15, 0.3}[r.intn(3)]
	for i := 0; i < r.rangeI(4, 14); i++ {
		at := base + r.i64n(dur)
		node := r.intn(n)
		switch r.intn(7) {
		case 6:
			p.Ops = append(p.Ops, Op{At: at, Kind: "plainstream", Node: node, A: int64(r.intn(3))})
		case 0:
			p.Ops = append(p.Ops, Op{At: at, Kind: "send", Node: node, B: int64(r.intn(n)), Buf: []byte(fmt.Sprintf("SECRET-USER-PAYLOAD-%d", i))})
		case 1:
			p.Ops = append(p.Ops, Op{At: at, Kind: "sendrel", Node: node, B: int64(r.intn(n)), Buf: []byte(fmt.Sprintf("SECRET-RELIABLE-%d", i))})
		case 2:
			p.Ops = append(p.Ops, Op{At: at, Kind: "bcast", Node: node, Buf: []byte(fmt.Sprintf("SECRET-BCAST-%d", i))})
		case 3:
			p.Ops = append(p.Ops, Op{At: at, Kind: "update", Node: node, A: 1000, S: fmt.Sprintf("secret-meta-%d", i)})
		case 4:
			p.Ops = append(p.Ops, Op{At: at, Kind: "badstream", Node: node})
		case 5:
			p.Ops = append(p.Ops, Op{At: at, Kind: "rotate", Node: node, A: int64(r.intn(3))})
		}
	}
	if r.chance(0.3) {
		// nodes start with an empty (non-nil) keyring; the first key is installed at run time
		p.P["latekey"] = 1
		kt := base + r.i64n(dur/3)
		for i := 0; i < n; i++ {
			p.Ops = append(p.Ops, Op{At: kt + int64(i)*int64(r.pick(1000, 1_000_000, 30_000_000)), Kind: "installkey", Node: i})
		}
	}
	p.P["end"] = base + dur + int64(5*time.Second)
	p.YieldOff = genYieldOff(r)
	return p
}

// rotation helper ops shared by C15 and C17R: A=0 add new key, 1 use new key, 2 remove old key
func rotateOp(n *SimNode, step int64, oldK, newK []byte) {
	kr := n.conf.Keyring
	switch step {
	case 0:
		_ = kr.AddKey(newK)
	case 1:
		_ = kr.AddKey(newK)
		_ = kr.UseKey(newK)
	case 2:
		if string(kr.GetPrimaryKey()) == string(newK) {
			_ = kr.RemoveKey(oldK)
		}
	}
}

func execC15(c *Ctx) {
	p := c.Plan
	cx := startClusterRun(c, newEventMon(), &healthMon{})
	tap := newConfTap(c, cx)
	att := cx.cl.net.newEndpoint(80, "att", ip4(10, 0, 9, 9), 7946)
	att.yieldOff = true
	oldK := simKey(p.Cfg.Encrypt, 1)
	newK := simKey(16, 0x42)
	rotated := map[int]int64{}
	latekey := p.param("latekey", 0) == 1
	cx.customOp = func(rec *opRec) bool {
		op := rec.Op
		n := cx.node(op.Node)
		switch op.Kind {
		case "create":
			if latekey && n != nil && !n.created {
				if err := cx.cl.create(n, func(conf *Config) {
					kr, _ := NewKeyring(nil, nil)
					conf.Keyring = kr
				}); err != nil {
					rec.Err = err.Error()
				}
				return true
			}
			return false
		case "installkey":
			if n != nil && n.conf != nil {
				_ = n.conf.Keyring.AddKey(oldK)
				c.Reach("first_key_installed_at_runtime")
			}
			return true
		case "badstream":
			// a correctly sealed but undecodable stream provokes the error reply
			if n == nil || n.m == nil || !n.running() {
				return true
			}
			body := []byte{byte(compressMsg), 0xc1, 0xc1, 0xc1} // sealed correctly, but not a decodable compress message
			data := wrapStreamOpt(n, body, true, false)
			_, _ = puppetStream(c.Sim, att, n, data, false, 300*time.Millisecond)
			c.Reach("error_reply_provoked")
			return true
		case "plainstream":
			// an unencrypted stream (a key-less peer, a cleartext TCP ping, garbage): whatever the
			// node answers must still be sealed
			if n == nil || n.m == nil || !n.running() {
				return true
			}
			var body []byte
			switch op.A {
			case 0:
				body = mustEncode(pingMsg, &ping{SeqNo: 99, Node: n.name})
			case 1:
				body = buildUserStream([]byte("cleartext-user-message"), -1)
			default:
				body = []byte{byte(pushPullMsg), 0x83, 0xa5}
			}
			if n.conf.Label != "" {
				body = append(makeLabelHeader(n.conf.Label, nil), body...)
			}
			_, _ = puppetStream(c.Sim, att, n, body, false, 300*time.Millisecond)
			c.Reach("cleartext_stream_sent")
			return true
		case "rotate":
			if n == nil || n.conf == nil || latekey {
				return true
			}
			// rotation steps only in a safe global order: add everywhere before anyone uses
			step := op.A
			if step >= 1 {
				for _, o := range cx.cl.nodes {
					if o.conf != nil {
						_ = o.conf.Keyring.AddKey(newK)
					}
				}
			}
			if step == 2 {
				// remove old only when everybody already uses the new key
				for _, o := range cx.cl.nodes {
					if o.conf != nil && string(o.conf.Keyring.GetPrimaryKey()) != string(newK) {
						return true
					}
				}
			}
			rotateOp(n, step, oldK, newK)
			rotated[n.idx] = step
			c.Reach(fmt.Sprintf("rotation_step%d", step))
			return true
		}
		return false
	}
	end := time.Duration(p.param("end", int64(30*time.Second)))
	c.Sim.RunUntil(end, func() bool { return c.Failed() })
	c.Res.Nontrivial = tap.bufs > 50
	c.Stat("buffers_checked", tap.bufs)
	c.Res.Sample = map[string]any{"n": p.N, "buffers": tap.bufs, "proto": p.Cfg.ProtocolVersion, "label": p.Cfg.Label, "compress": p.Cfg.Compression}
	cx.finish()
}

// ---------------------------------------------------------------- C17R

func genC17R(c *Ctx) *Plan {
	r := c.R
	p := &Plan{N: r.rangeI(2, 5), Cfg: genCfg(r), P: map[string]int64{}}
	p.Cfg.Encrypt = r.pick(16, 24, 32)
	p.Cfg.HandoffDepth = 1024
	n := p.N
	p.Net.MinDelay = 1000
	p.Net.MaxDelay = int64(ms(p.Cfg.ProbeTimeoutMs)) / 6
	if pi := int64(ms(p.Cfg.ProbeIntervalMs)) / 6; p.Net.MaxDelay > pi {
		p.Net.MaxDelay = pi
	}
	t := int64(1000)
	for i := 0; i < n; i++ {
		t += 1_000_000 + r.i64n(200_000_000)
		p.Ops = append(p.Ops, Op{At: t, Kind: "create", Node: i})
	}
	for i := 1; i < n; i++ {
		p.Ops = append(p.Ops, Op{At: t + 1_000_000 + r.i64n(800_000_000), Kind: "join", Node: i, L: []int64{int64(r.intn(i))}})
	}
	p.P["start"] = t + 3_000_000_000
	// per-phase node order (PRNG)
	for ph := 0; ph < 3; ph++ {
		perm := make([]int, n)
		for i := range perm {
			perm[i] = i
		}
		for i := n - 1; i > 0; i-- {
			j := r.intn(i + 1)
			perm[i], perm[j] = perm[j], perm[i]
		}
		for _, x := range perm {
			p.Ops = append(p.Ops, Op{Kind: "rot", Node: x, A: int64(ph), At: 0})
		}
	}
	p.P["gap_ms"] = int64(r.pick(1, 50, 300, 1200))
	p.YieldOff = genYieldOff(r)
	return p
}

func execC17R(c *Ctx) {
	p := c.Plan
	var rots []Op
	var rest []Op
	for _, o := range p.Ops {
		if o.Kind == "rot" {
			rots = append(rots, o)
		} else {
			rest = append(rest, o)
		}
	}
	saved := p.Ops
	p.Ops = rest
	cx := startClusterRun(c, newEventMon(), &healthMon{}, &c04mon{})
	p.Ops = saved
	tap := newConfTap(c, cx)
	oldK := simKey(p.Cfg.Encrypt, 1)
	newK := simKey(16, 0x42)
	c.Sim.RunUntil(time.Duration(p.param("start", 0)), func() bool { return c.Failed() })
	gap := time.Duration(p.param("gap_ms", 50)) * time.Millisecond
	seq := 0
	probeAll := func(stage string) bool {
		// every ordered pair exchanges a packet and a stream user message
		type exp struct {
			to  *SimNode
			msg string
		}
		var want []exp
		nodes := cx.runningSet()
		for _, a := range nodes {
			for _, b := range nodes {
				if a == b {
					continue
				}
				seq++
				m1 := fmt.Sprintf("probe-udp-%d-%s-%s", seq, a.name, b.name)
				m2 := fmt.Sprintf("probe-tcp-%d-%s-%s", seq, a.name, b.name)
				to := &Node{Name: b.name, Addr: b.ip, Port: uint16(b.port)}
				for _, mm := range a.m.Members() {
					if mm.Name == b.name {
						to = mm
					}
				}
				aa, tt := a, to
				// one at a time up to its first park, so the arrival order at the write / dial
				// yield sites (and with it the stable ids) does not depend on the Go scheduler
				go func() { _ = aa.m.SendBestEffort(tt, []byte(m1)) }()
				synctest.Wait()
				go func() { _ = aa.m.SendReliable(tt, []byte(m2)) }()
				synctest.Wait()
				want = append(want, exp{b, m1}, exp{b, m2})
			}
		}
		c.Sim.Run(2*time.Duration(p.Net.MaxDelay) + 20*time.Millisecond)
		for _, w := range want {
			found := 0
			w.to.mu.Lock()
			for _, m := range w.to.msgs {
				if string(m.Buf) == w.msg {
					found++
				}
			}
			w.to.mu.Unlock()
			if found != 1 {
				c.Violate("rotation-broke-communication", "", w.to.name, "%s: message %q was delivered %d times (expected exactly once) - keyrings: %s", stage, w.msg, found, keyringState(cx, oldK, newK))
				return false
			}
		}
		c.ReachN("probe_messages_delivered", int64(len(want)))
		return true
	}
	if !probeAll("before rotation") {
		cx.finish()
		return
	}
	lastPhase := int64(0)
	for i, o := range rots {
		if c.Failed() {
			break
		}
		if o.A != lastPhase {
			// "then": let in-flight traffic of the previous phase drain
			c.Sim.Run(4*time.Duration(p.Net.MaxDelay) + ms(p.Cfg.GossipIntervalMs))
			lastPhase = o.A
		}
		n := cx.node(o.Node)
		if n == nil || n.conf == nil {
			continue
		}
		rotateOp(n, o.A, oldK, newK)
		c.Sim.Note(fmt.Sprintf("rot %d n%d", o.A, o.Node))
		if !probeAll(fmt.Sprintf("after step %d (phase %d on %s)", i, o.A, n.name)) {
			break
		}
		c.Sim.Run(gap)
	}
	if !c.Failed() {
		c.Sim.Run(3 * ms(p.Cfg.ProbeIntervalMs))
		for _, n := range cx.runningSet() {
			ks := n.conf.Keyring.GetKeys()
			if len(ks) != 1 || string(ks[0]) != string(newK) {
				c.Violate("rotation-incomplete", "", n.name, "after the three phases %s has %d keys", n.name, len(ks))
			}
		}
	}
	c.Res.Nontrivial = len(rots) > 0 && tap.bufs > 20
	c.Stat("buffers_checked", tap.bufs)
	c.Res.Sample = map[string]any{"n": p.N, "steps": len(rots), "gap_ms": p.param("gap_ms", 0)}
	cx.finish()
}

func keyringState(cx *clusterRun, oldK, newK []byte) string {
	var out []string
	for _, n := range cx.cl.nodes {
		if n.conf == nil {
			continue
		}
		s := n.name + ":"
		for _, k := range n.conf.Keyring.GetKeys() {
			switch string(k) {
			case string(oldK):
				s += "old,"
			case string(newK):
				s += "new,"
			default:
				s += "?,"
			}
		}
		out = append(out, s)
	}
	sort.Strings(out)
	return fmt.Sprint(out)
}

var _ = net.IPv4
