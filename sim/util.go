package memberlist

import (
	"hash/crc32"
	"sort"
	"strings"
)

func sortStrs(x []string) { sort.Strings(x) }

func crc32sum(b []byte) uint32        { return crc32.ChecksumIEEE(b) }
func lastIndex(s, sub string) int     { return strings.LastIndex(s, sub) }
func contains(s, sub string) bool     { return strings.Contains(s, sub) }
