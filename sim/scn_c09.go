package memberlist

// C09 — join and push/pull: mutual, all-or-nothing, vetoable; hearsay never kills.
//   C09J: mutuality of Join in a live cluster (cluster mode, gossip flowing)
//   C09P: atomicity under stream cuts at every byte, veto, version rule, hearsay (lab)

import (
	"errors"
	"fmt"
	"math"
	"net"
	"sort"
	"time"
)

func init() {
	register(&Scenario{Name: "C09J", Gen: genC09J, Exec: execC09J})
	register(&Scenario{Name: "C09P", Gen: genC09P, Exec: execC09P})
}

// ---------------------------------------------------------------- C09J

func genC09J(c *Ctx) *Plan {
	r := c.R
	p := &Plan{N: r.rangeI(2, 7), Cfg: genCfg(r), P: map[string]int64{}}
	p.Cfg.HandoffDepth = 1024
	n := p.N
	p.Net.MinDelay = 1000
	p.Net.MaxDelay = int64(r.pick(100_000, 2_000_000, 20_000_000))
	p.Net.StreamFrag = r.chance(0.5)
	if r.chance(0.4) {
		p.Net.StreamDelay = p.Net.MaxDelay
	}
	t := int64(1000)
	for i := 0; i < n; i++ {
		t += 1_000_000 + r.i64n(200_000_000)
		p.Ops = append(p.Ops, Op{At: t, Kind: "create", Node: i})
	}
	// nodes 1..n-2 form the cluster around node 0; the last node joins later
	for i := 1; i < n-1; i++ {
		p.Ops = append(p.Ops, Op{At: t + 1_000_000 + r.i64n(500_000_000), Kind: "join", Node: i, L: []int64{int64(r.intn(i))}})
	}
	p.P["join_at"] = t + 3_000_000_000 + r.i64n(2_000_000_000)
	nh := r.rangeI(1, 2)
	var hosts []int64
	for len(hosts) < nh && len(hosts) < n-1 {
		h := int64(r.intn(n - 1))
		dup := false
		for _, x := range hosts {
			if x == h {
				dup = true
			}
		}
		if !dup {
			hosts = append(hosts, h)
		}
	}
	p.P["h0"] = hosts[0]
	if len(hosts) > 1 {
		p.P["h1"] = hosts[1]
	} else {
		p.P["h1"] = -1
	}
	if len(hosts) > 1 {
		p.P["veto"] = int64(r.pick(0, 1, 2)) // 1: second host's delegate vetoes the join, 2: joiner vetoes its second merge
	}
	p.YieldOff = genYieldOff(r)
	p.Cfg.AliveDel = r.chance(0.5) // an accepting AliveDelegate: a preemption point if it is ever called without the node lock
	return p
}

func execC09J(c *Ctx) {
	p := c.Plan
	cx := startClusterRun(c, newEventMon(), &healthMon{})
	n := p.N
	J := cx.node(n - 1)
	at := time.Duration(p.param("join_at", 0))
	c.Sim.RunUntil(at, func() bool { return c.Failed() })
	if c.Failed() || J.m == nil {
		cx.finish()
		return
	}
	hosts := []int{int(p.param("h0", 0))}
	if h1 := int(p.param("h1", -1)); h1 >= 0 {
		hosts = append(hosts, h1)
	}
	// what each host lists as alive just before the join
	aliveBefore := map[int]map[string]recView{}
	for _, h := range hosts {
		H := cx.node(h)
		aliveBefore[h] = map[string]recView{}
		H.m.nodeLock.RLock()
		for name, st := range H.m.nodeMap {
			if st.State == StateAlive {
				aliveBefore[h][name] = viewLocked(H.m, name)
			}
		}
		H.m.nodeLock.RUnlock()
	}
	var addrs []string
	for _, h := range hosts {
		H := cx.node(h)
		addrs = append(addrs, net.JoinHostPort(H.ip.String(), "7946"))
	}
	veto := int(p.param("veto", 0))
	merges := 0
	J.mu.Lock()
	J.localState = []byte("user-state-of-the-joiner")
	J.mu.Unlock()
	if veto == 1 && len(hosts) > 1 {
		cx.node(hosts[1]).mergeVeto = func([]*Node) error { return errors.New("host vetoes every join") }
	} else if veto == 2 {
		J.mergeVeto = func([]*Node) error {
			merges++
			if merges >= 2 {
				return errors.New("joiner vetoes its second merge")
			}
			return nil
		}
	}
	done := false
	var k int
	var jerr error
	go func() {
		k, jerr = J.m.Join(addrs)
		done = true
	}()
	c.Sim.RunUntil(c.Sim.Now()+30*time.Second, func() bool { return done })
	if done && veto > 0 {
		wantK := len(hosts)
		if veto == 2 {
			wantK = 1
		}
		if k != wantK {
			c.Violate("join-veto-ignored", "", J.name, "Join(%v) with merge-delegate veto variant %d returned %d successes (err=%v), expected %d", addrs, veto, k, jerr, wantK)
		}
		if veto == 1 {
			// the vetoing host must not have merged the joiner: let its handler finish, deliver nothing
			c.Sim.holdEvents = true
			c.Sim.Settle()
			c.Sim.holdEvents = false
			// (the host may have heard of the joiner by gossip from the first host meanwhile; what the
			// veto must prevent is the merge of the joiner's pushed state, observable as its user state)
			H := cx.node(hosts[1])
			H.mu.Lock()
			got := false
			for i, mr := range H.merged {
				// only the join exchange is subject to the veto: the joiner's periodic anti-entropy
				// push/pull may reach the same host at the same time and is merged regardless
				if string(mr.Buf) == "user-state-of-the-joiner" && i < len(H.mergedJoin) && H.mergedJoin[i] {
					got = true
				}
			}
			H.mu.Unlock()
			if got {
				c.Violate("join-veto-ignored", "", H.name, "host %s's merge delegate vetoed the join, yet the joiner's pushed state was merged (MergeRemoteState received the joiner's user state)", H.name)
			}
		}
		c.Reach(fmt.Sprintf("multi_host_join_veto%d", veto))
		c.Res.Nontrivial = true
		c.Sim.Run(100 * time.Millisecond)
		cx.finish()
		return
	}
	if !done {
		c.Violate("join-hung", "", J.name, "Join(%v) did not return within 30s on a fault-free network", addrs)
		cx.finish()
		return
	}
	if k != len(hosts) || jerr != nil {
		c.Violate("join-failed", "", J.name, "Join(%v) on a fault-free network returned %d, %v", addrs, k, jerr)
		cx.finish()
		return
	}
	// at this very instant (no virtual time has passed since Join returned):
	for _, h := range hosts {
		H := cx.node(h)
		if !J.lists(H.name) {
			c.Violate("joiner-misses-host", "", J.name, "Join returned %d but the joiner does not list host %s (record %s)", k, H.name, J.view(H.name))
		}
		for name, before := range aliveBefore[h] {
			now := H.view(name)
			if now.State != StateAlive || now.Inc != before.Inc {
				continue // changed during the join: not required
			}
			jv := J.view(name)
			if !(jv.Present && (jv.State == StateAlive || jv.State == StateSuspect)) && !(jv.Present && rankLess(now, jv)) {
				c.Violate("joiner-misses-reported-member", "", J.name, "host %s reported %s alive (%s) but the joiner does not list it right after Join returned (joiner's record: %s)", H.name, name, now, jv)
			}
		}
	}
	// the host lists the joiner as soon as its handler finishes: let parked
	// goroutines run, but deliver nothing and let no time pass
	c.Sim.holdEvents = true
	t0 := c.Sim.Now()
	c.Sim.Settle()
	c.Sim.holdEvents = false
	if c.Sim.Now() != t0 {
		c.Res.HarnessErr = "time advanced during hold"
		c.Res.OK = false
	}
	for _, h := range hosts {
		H := cx.node(h)
		if !H.lists(J.name) {
			hv := H.view(J.name)
			c.Violate("host-misses-joiner", "", H.name, "Join returned success for host %s but, with its handler finished and no further message delivered, the host does not list the joiner (record %s)", H.name, hv)
		}
	}
	c.Res.Nontrivial = true
	c.Stat("reported_alive", int64(len(aliveBefore[hosts[0]])))
	c.Res.Sample = map[string]any{"n": n, "hosts": hosts, "reported": len(aliveBefore[hosts[0]])}
	c.Sim.Run(200 * time.Millisecond)
	cx.finish()
}

// ---------------------------------------------------------------- C09P

// table entry op: Kind "ent" Node: side (0=A initiator,1=B responder) S=name A=inc B=state(0..3) C=vsn variant D=addr idx
func genC09P(c *Ctx) *Plan {
	r := c.R
	cp := benchCfg(r)
	cp.Encrypt = r.pick(0, 16, 32)
	cp.ProtocolVersion = r.pick(1, 2, 5)
	cp.Label = []string{"", "lbl"}[r.intn(2)]
	cp.Compression = r.chance(0.5)
	cp.GossipToDeadMs = 3600_000
	cp.TCPTimeoutMs = 300
	cp.SuspicionMult = r.rangeI(2, 5)
	p := &Plan{Cfg: cp, P: map[string]int64{}, YieldOff: []string{"*"}}
	p.P["join"] = int64(r.intn(2))
	p.P["mode"] = int64(r.pick(0, 0, 0, 1, 2, 3)) // 0 cuts, 1 veto, 2 versions, 3 hearsay
	names := []string{"t1", "t2", "t3", "t4", "t5", "t6", "snd", "rcv"}
	for side := 0; side < 2; side++ {
		k := r.rangeI(0, 8)
		if r.chance(0.1) {
			k = r.rangeI(20, 60)
		}
		for i := 0; i < k; i++ {
			name := names[r.intn(len(names))]
			if i >= 8 {
				name = fmt.Sprintf("x%d", i)
			}
			p.Ops = append(p.Ops, Op{Kind: "ent", Node: side, S: name, A: int64(r.rangeI(1, 4)), B: int64(r.pick(0, 0, 0, 1, 2, 3)), C: 0, D: int64(r.intn(3))})
		}
	}
	p.P["userstate"] = int64(r.pick(0, 0, 10, 300))
	return p
}

func c09Vsn(v int64) []uint8 {
	if v >= 1_000_000 {
		// generated 6-tuple, one decimal digit per field
		d := func(k int64) uint8 { return uint8((v / k) % 10) }
		return []uint8{d(100000), d(10000), d(1000), d(100), d(10), d(1)}
	}
	switch v {
	case 1:
		return []uint8{1, 3, 2, 0, 0, 0}
	case 2:
		return []uint8{4, 5, 4, 0, 0, 0} // incompatible with pcur 2
	case 3:
		return []uint8{1, 5, 2, 2, 4, 3}
	case 4:
		return []uint8{1, 5, 2, 5, 6, 5} // delegate range incompatible with 0
	case 5:
		return []uint8{1, 5, 6, 0, 0, 0} // pcur outside own range
	}
	return []uint8{1, 5, 2, 0, 0, 0}
}

// independent version-compatibility rule over alive entries
type vEnt struct {
	alive bool
	v     [6]uint8
}

func c09Compatible(ents []vEnt) bool {
	var maxpmin, maxdmin uint8
	minpmax, mindmax := uint8(255), uint8(255)
	for _, e := range ents {
		if !e.alive {
			continue
		}
		if e.v[0] > maxpmin {
			maxpmin = e.v[0]
		}
		if e.v[1] < minpmax {
			minpmax = e.v[1]
		}
		if e.v[3] > maxdmin {
			maxdmin = e.v[3]
		}
		if e.v[4] < mindmax {
			mindmax = e.v[4]
		}
	}
	if maxpmin > minpmax || maxdmin > mindmax {
		return false
	}
	for _, e := range ents {
		if !e.alive {
			continue
		}
		if e.v[2] < maxpmin || e.v[2] > minpmax || e.v[5] < maxdmin || e.v[5] > mindmax {
			return false
		}
	}
	return true
}

func (n *SimNode) fullDigest() string {
	n.mu.Lock()
	ev, mg := len(n.events), len(n.merged)
	n.mu.Unlock()
	var q []string
	for name, msg := range n.queuedBroadcasts() {
		q = append(q, fmt.Sprintf("%s=%x", name, msg))
	}
	sort.Strings(q)
	return fmt.Sprintf("%s|ev%d|mg%d|q%v", n.digest(), ev, mg, q)
}

func execC09P(c *Ctx) {
	p := c.Plan
	join := p.param("join", 0) == 1
	mode := int(p.param("mode", 0))
	vetoA, vetoB := false, false
	l := newLab(c, p.Cfg, func(conf *Config, who string) {
		// merge delegates installed on both sides; veto switched per experiment
	})
	defer l.finish()
	r := newRng(hash64(c.Seed, 0xc09))
	usr := int(p.param("userstate", 0))
	setup := func() {
		l.S.m.Shutdown()
		// fresh initiator A (snd) and responder B (rcv)
		A := &SimNode{sim: l.sim, net: l.cl.net, idx: 0, name: "snd", ip: ip4(10, 0, 0, 2), port: 7946, cfgp: l.cp, evSeq: &l.cl.evSeq}
		A.meta = []byte("m-snd")
		A.leaveGate, A.shutGate = make(chan struct{}, 1), make(chan struct{}, 1)
		A.noYieldCb = true
		if err := l.cl.create(A, func(conf *Config) {
			l.quiet(conf)
			conf.Merge = mergeDel{A}
			if mode != 3 {
				conf.ProbeInterval = 10 * time.Hour // suspicion timers must not fire between exchanges
			}
		}); err != nil {
			panic(err)
		}
		A.m.deschedule()
		l.S = A
		l.freshR()
		B := l.R
		B.conf.Merge = mergeDel{B}
		if mode != 3 {
			B.conf.ProbeInterval = 10 * time.Hour
		}
		A.mergeVeto = func([]*Node) error {
			if vetoA {
				return errors.New("vetoed by A")
			}
			return nil
		}
		B.mergeVeto = func([]*Node) error {
			if vetoB {
				return errors.New("vetoed by B")
			}
			return nil
		}
		if usr > 0 {
			A.localState = bytesOf('A', usr)
			B.localState = bytesOf('B', usr)
		}
		for _, op := range p.Ops {
			if op.Kind != "ent" {
				continue
			}
			nd := A
			if op.Node == 1 {
				nd = B
			}
			if op.S == nd.name {
				continue
			}
			vs := c09Vsn(op.C)
			addr := ip4(10, 0, 5, byte(10+op.D))
			if op.S == "snd" {
				addr = ip4(10, 0, 0, 2)
			} else if op.S == "rcv" {
				addr = ip4(10, 0, 0, 3)
			}
			nd.m.aliveNode(&alive{Incarnation: uint32(op.A), Node: op.S, Addr: addr, Port: 7946, Meta: []byte("m-" + op.S), Vsn: vs}, nil, false)
			switch op.B {
			case 1:
				nd.m.suspectNode(&suspect{Incarnation: uint32(op.A), Node: op.S, From: "q"})
			case 2:
				nd.m.deadNode(&dead{Incarnation: uint32(op.A), Node: op.S, From: "q"})
			case 3:
				nd.m.deadNode(&dead{Incarnation: uint32(op.A), Node: op.S, From: op.S})
			}
		}
		A.m.broadcasts.Reset()
		B.m.broadcasts.Reset()
	}
	type result struct {
		err        error
		c2s, s2c   int64
		dA0, dA1   string
		dB0, dB1   string
	}
	exchange := func(c2sCut, s2cCut int64, reset bool) result {
		A, B := l.S, l.R
		var res result
		res.dA0, res.dB0 = A.fullDigest(), B.fullDigest()
		var conn *simConn
		l.cl.net.connFault = func(id int, cl, sv *endpoint) (int64, int64, bool) { return c2sCut, s2cCut, reset }
		before := len(l.cl.net.conns)
		done := false
		go func() {
			if join {
				_, res.err = A.m.Join([]string{B.ep.addr})
			} else {
				res.err = A.m.pushPullNode(Address{Addr: B.ep.addr, Name: "rcv"}, false)
			}
			done = true
		}()
		l.sim.RunUntil(l.sim.Now()+2*time.Second, func() bool { return done })
		l.sim.Run(A.conf.TCPTimeout + 50*time.Millisecond)
		l.sim.Settle()
		l.cl.net.connFault = nil
		if len(l.cl.net.conns) > before {
			conn = l.cl.net.conns[before]
			res.c2s = conn.out.written
			res.s2c = conn.in.written
		}
		if !done {
			c.Violate("pushpull-hung", "", "snd", "push/pull did not return within 2s (cuts %d/%d)", c2sCut, s2cCut)
		}
		res.dA1, res.dB1 = A.fullDigest(), B.fullDigest()
		return res
	}
	setup()
	switch mode {
	case 0:
		// uncut reference run to learn the stream lengths
		ref := exchange(-1, -1, false)
		if ref.err != nil {
			// e.g. version-incompatible tables: then nothing may have changed on A
			if ref.dA1 != ref.dA0 {
				c.Violate("failed-exchange-changed-initiator", "", "snd", "push/pull failed (%v) but the initiator changed", ref.err)
			}
			c.Reach("reference_exchange_failed")
			break
		}
		lenReq, lenRep := ref.c2s, ref.s2c
		setup()
		offsets := func(n int64) []int64 {
			var o []int64
			if n <= 500 {
				for k := int64(0); k < n; k++ {
					o = append(o, k)
				}
				return o
			}
			seen := map[int64]bool{}
			for _, k := range []int64{0, 1, 2, 3, 4, 5, 6, 7, 8, 9, 10, n - 1, n - 2, n - 16, n - 17, n - 29, n / 2} {
				if k >= 0 && k < n && !seen[k] {
					seen[k] = true
					o = append(o, k)
				}
			}
			for len(o) < 160 {
				k := r.i64n(n)
				if !seen[k] {
					seen[k] = true
					o = append(o, k)
				}
			}
			return o
		}
		cuts := 0
		for dir := 0; dir < 2 && !c.Failed(); dir++ {
			n := lenReq
			if dir == 1 {
				n = lenRep
			}
			for _, k := range offsets(n) {
				setupNeeded := false
				var res result
				if dir == 0 {
					res = exchange(k, -1, r.chance(0.3))
				} else {
					res = exchange(-1, k, r.chance(0.3))
				}
				cuts++
				what := fmt.Sprintf("%s cut after %d of %d bytes (join=%v enc=%d compress=%v label=%q)", []string{"initiator->responder stream", "reply stream"}[dir], k, n, join, p.Cfg.Encrypt, p.Cfg.Compression, p.Cfg.Label)
				// table order is randomised per instance, so compressed lengths vary by a
				// few bytes: a cut at or beyond the actual length did not bite
				if (dir == 0 && res.c2s <= k) || (dir == 1 && res.s2c <= k) {
					c.Reach("cut_beyond_stream_end")
					if res.dB1 != res.dB0 || res.dA1 != res.dA0 {
						setup()
					}
					continue
				}
				if res.err == nil {
					c.Violate("cut-exchange-reported-success", "", "snd", "%s: the initiator reported success (this exchange: request %d bytes, reply %d bytes written)", what, res.c2s, res.s2c)
					break
				}
				if res.dA1 != res.dA0 {
					c.Violate("cut-exchange-changed-initiator", "", "snd", "%s: the initiator's state changed although its inbound data was incomplete or absent", what)
					break
				}
				if dir == 0 {
					if res.dB1 != res.dB0 {
						c.Violate("cut-exchange-changed-responder", "", "rcv", "%s: the responder's state changed although its inbound data was incomplete", what)
						break
					}
				} else if res.dB1 != res.dB0 {
					setupNeeded = true // the responder received everything: its merge is legitimate
				}
				if setupNeeded {
					setup()
				}
				if c.Failed() {
					break
				}
			}
		}
		c.Stat("cut_points", int64(cuts))
		c.Reach("cut_enumeration")
		if lenReq <= 500 && lenRep <= 500 {
			c.Reach("cut_enumeration_complete")
		}
	case 1:
		// merge-delegate veto (join only)
		vetoA = true
		res := exchange(-1, -1, false)
		if join {
			if res.err == nil || res.dA1 != res.dA0 {
				c.Violate("veto-ignored", "", "snd", "initiator's merge delegate vetoed the join but err=%v, state changed=%v", res.err, res.dA1 != res.dA0)
			}
		} else if res.err != nil {
			c.Violate("veto-applied-to-anti-entropy", "", "snd", "merge delegate must only be consulted on join; anti-entropy push/pull failed: %v", res.err)
		}
		vetoA = false
		setup()
		vetoB = true
		res = exchange(-1, -1, false)
		if join && res.dB1 != res.dB0 {
			c.Violate("veto-ignored", "", "rcv", "responder's merge delegate vetoed the join but its state changed")
		}
		vetoB = false
		c.Reach("veto")
	case 2:
		// version rule, soundness direction: rewrite some entries with generated 6-tuples
		for i := range p.Ops {
			if p.Ops[i].Kind == "ent" {
				p.Ops[i].C = int64(r.pick(0, 0, 0, 1, 2, 3, 4, 5))
				if r.chance(0.4) {
					// free 6-tuples, biased to delegate ranges that start at 0 so that only an *upper*
					// bound (of a local or of a remote entry) decides compatibility
					p.Ops[i].C = 1_000_000 + int64(r.pick(1, 1, 2))*100000 + int64(r.pick(3, 5, 5))*10000 + int64(r.pick(2, 2, 3))*1000 +
						int64(r.pick(0, 0, 0, 1, 2))*100 + int64(r.pick(0, 3, 3, 5))*10 + int64(r.pick(0, 1, 3, 3, 5))
				}
			}
		}
		setup()
		A, B := l.S, l.R
		collect := func(n *SimNode) []vEnt {
			var out []vEnt
			n.m.nodeLock.RLock()
			for _, st := range n.m.nodeMap {
				out = append(out, vEnt{st.State == StateAlive, [6]uint8{st.PMin, st.PMax, st.PCur, st.DMin, st.DMax, st.DCur}})
			}
			n.m.nodeLock.RUnlock()
			return out
		}
		all := append(collect(A), collect(B)...)
		compat := c09Compatible(all)
		res := exchange(-1, -1, false)
		if !compat {
			c.Reach("incompatible_tables")
			if res.dA1 != res.dA0 {
				c.Violate("incompatible-versions-merged", "", "snd", "alive entries of the two tables have non-overlapping protocol/delegate version ranges, yet the initiator merged (err=%v)", res.err)
			}
			if res.dB1 != res.dB0 {
				c.Violate("incompatible-versions-merged", "", "rcv", "alive entries of the two tables have non-overlapping protocol/delegate version ranges, yet the responder merged")
			}
		} else {
			c.Reach("compatible_tables")
		}
	case 3:
		// hearsay: the remote side says T is dead/suspect; the receiver lists T alive
		setup()
		A, B := l.S, l.R
		A.m.aliveNode(&alive{Incarnation: 7, Node: "hz", Addr: ip4(10, 0, 5, 99), Port: 7946, Vsn: c01Vsn(0)}, nil, false)
		A.m.aliveNode(&alive{Incarnation: 7, Node: "hl", Addr: ip4(10, 0, 5, 98), Port: 7946, Vsn: c01Vsn(0)}, nil, false)
		B.m.aliveNode(&alive{Incarnation: 7, Node: "hz", Addr: ip4(10, 0, 5, 99), Port: 7946, Vsn: c01Vsn(0)}, nil, false)
		B.m.aliveNode(&alive{Incarnation: 7, Node: "hl", Addr: ip4(10, 0, 5, 98), Port: 7946, Vsn: c01Vsn(0)}, nil, false)
		if r.chance(0.5) {
			B.m.deadNode(&dead{Incarnation: 7, Node: "hz", From: "q"})
		} else {
			B.m.suspectNode(&suspect{Incarnation: 7, Node: "hz", From: "q"})
		}
		B.m.deadNode(&dead{Incarnation: 7, Node: "hl", From: "hl"}) // self-signed leave
		n0 := len(A.m.nodeMap)
		res := exchange(-1, -1, false)
		t0 := A.view("hz").Change.Sub(l.sim.start)
		if res.err != nil {
			c.Reach("hearsay_exchange_failed")
			break
		}
		if !A.lists("hz") {
			c.Violate("hearsay-killed", "", "snd", "the responder reported hz dead/suspect; the initiator removed it from Members() directly (record %s)", A.view("hz"))
			break
		}
		if v := A.view("hz"); v.State != StateSuspect {
			c.Violate("hearsay-not-suspected", "", "snd", "after the merge hz is %s, expected local suspicion", v)
			break
		}
		if A.lists("hl") || A.view("hl").State != StateLeft {
			c.Violate("leave-not-applied", "", "snd", "the responder reported hl left; the initiator's record is %s", A.view("hl"))
			break
		}
		// lower bound: the cluster size the node knew before the merge
		smin := time.Duration(float64(p.Cfg.SuspicionMult) * math.Max(1, math.Log10(float64(n0))) * float64(ms(p.Cfg.ProbeIntervalMs)))
		if l.sim.Now() < t0+smin-20*time.Millisecond {
			l.sim.RunUntil(t0+smin-20*time.Millisecond, nil)
		}
		if !A.lists("hz") {
			c.Violate("hearsay-killed-early", "", "snd", "hz dropped %v after a peer's hearsay, before the minimum suspicion timeout %v", l.sim.Now()-t0, smin)
		}
		c.Reach("hearsay")
	}
	c.Res.Nontrivial = true
	c.Reach(fmt.Sprintf("mode%d", mode))
	c.Res.FP = fmt.Sprintf("%016x", hash64(hashOps(p.Ops), uint64(mode), uint64(boolInt(join)), uint64(p.Cfg.Encrypt), uint64(boolInt(p.Cfg.Compression)), hashStr(p.Cfg.Label), uint64(usr)))
	c.Res.Sample = map[string]any{"mode": mode, "join": join, "entries": len(p.Ops)}
}

func bytesOf(b byte, n int) []byte {
	o := make([]byte, n)
	for i := range o {
		o[i] = b
	}
	return o
}
