package memberlist

// Bench mode: one real node (tickers normally disabled) surrounded by puppets.
// The driver applies stimuli directly (or as real packets) and compares the node
// with a reference after every step.

import (
	"bytes"
	"fmt"
	"net"
	"sort"
	"sync"
	"testing/synctest"
	"time"
)

type puppet struct {
	name string
	ep   *endpoint
	mu   sync.Mutex
	pkts []puppetPkt
	conns []net.Conn
	onConn func(net.Conn)
}

type puppetPkt struct {
	T    time.Duration
	From string
	Buf  []byte
}

type Bench struct {
	c   *Ctx
	sim *Sim
	cl  *Cluster
	n   *SimNode
	pup map[string]*puppet
	pupList []*puppet
}

func benchCfg(r *rng) CfgPlan {
	c := genCfg(r)
	c.ProbeIntervalMs = 1000
	c.ProbeTimeoutMs = 300
	c.HandoffDepth = 1024
	return c
}

// newBench creates the real node "obs" with tickers off (unless keepTickers).
func newBench(c *Ctx, cp CfgPlan, tickers bool, tweak func(*Config)) *Bench {
	b := &Bench{c: c, sim: c.Sim, pup: map[string]*puppet{}}
	b.cl = newCluster(c.Sim, c.Plan)
	b.n = b.cl.addNode("obs", net.IPv4(10, 0, 0, 1).To4(), cp)
	b.n.noYieldCb = true
	err := b.cl.create(b.n, func(conf *Config) {
		if !tickers {
			// keep ProbeInterval for the suspicion arithmetic but never schedule
			conf.PushPullInterval = 0
			conf.GossipInterval = 0
		}
		if tweak != nil {
			tweak(conf)
		}
	})
	if err != nil {
		panic("bench create: " + err.Error())
	}
	if !tickers {
		// stop the probe ticker: bench stimuli must be the only cause of effects
		b.n.m.deschedule()
	}
	synctest.Wait()
	return b
}

func (b *Bench) addPuppet(name string, ip net.IP) *puppet {
	p := &puppet{name: name}
	p.ep = b.cl.net.newEndpoint(100+len(b.pupList), name, ip, 7946)
	p.ep.yieldOff = true
	b.pup[name] = p
	b.pupList = append(b.pupList, p)
	go func() {
		for {
			select {
			case pk := <-p.ep.packetCh:
				p.mu.Lock()
				p.pkts = append(p.pkts, puppetPkt{b.sim.Now(), pk.From.String(), pk.Buf})
				p.mu.Unlock()
			case cn := <-p.ep.streamCh:
				p.mu.Lock()
				f := p.onConn
				if f == nil {
					p.conns = append(p.conns, cn)
				}
				p.mu.Unlock()
				if f != nil {
					go f(cn)
				}
			case <-b.sim.quit:
				return
			}
		}
	}()
	return p
}

func (p *puppet) take() []puppetPkt {
	p.mu.Lock()
	defer p.mu.Unlock()
	o := p.pkts
	p.pkts = nil
	return o
}

// inject delivers a raw packet to the real node as if it came from `from`.
func (b *Bench) inject(buf []byte, from net.Addr) {
	b.n.ep.deliverPacket(append([]byte(nil), buf...), from)
	b.sim.Settle()
}

// wrapPacket applies the sender-side pipeline of a peer with the node's own
// configuration (compression optional, CRC optional, encryption, label).
func (b *Bench) wrapPacket(msg []byte, compress, crc bool) []byte {
	return wrapPacketFor(b.n, msg, compress, crc)
}

// wrapPacketFor applies the sender-side pipeline of a peer configured like n.
func wrapPacketFor(n *SimNode, msg []byte, compress, crc bool) []byte {
	conf := n.conf
	if compress {
		if cb, err := compressPayload(msg, conf.MsgpackUseNewTimeFormat); err == nil {
			msg = cb.Bytes()
		}
	}
	if crc {
		msg = addCRC(msg)
	}
	if conf.EncryptionEnabled() {
		var out bytes.Buffer
		if err := encryptPayload(n.m.encryptionVersion(), conf.Keyring.GetPrimaryKey(), msg, []byte(conf.Label), &out); err != nil {
			panic(err)
		}
		msg = out.Bytes()
	}
	if conf.Label != "" {
		msg = makeLabelHeader(conf.Label, msg)
	}
	return msg
}

func addCRC(msg []byte) []byte {
	h := make([]byte, 5, 5+len(msg))
	h[0] = byte(hasCrcMsg)
	crc := crc32sum(msg)
	h[1], h[2], h[3], h[4] = byte(crc>>24), byte(crc>>16), byte(crc>>8), byte(crc)
	return append(h, msg...)
}

func mustEncode(t messageType, v any) []byte {
	buf, err := encode(t, v, false)
	if err != nil {
		panic(err)
	}
	return buf.Bytes()
}

type benchSnap struct {
	view    recView
	members string
	nEvents int
	nConfl  int
	bq      string
	timer   bool
	health  int
	ownInc  uint32
}

func (b *Bench) snap(name string) benchSnap {
	n := b.n
	s := benchSnap{view: n.view(name), health: n.m.GetHealthScore(), ownInc: n.m.incarnation.Load()}
	var ms []string
	for _, m := range n.m.Members() {
		ms = append(ms, fmt.Sprintf("%s@%s:%d/%s", m.Name, m.Addr, m.Port, m.Meta))
	}
	sort.Strings(ms)
	s.members = fmt.Sprint(ms)
	n.mu.Lock()
	s.nEvents = len(n.events)
	s.nConfl = len(n.conflicts)
	n.mu.Unlock()
	q := n.m.broadcasts
	q.mu.Lock()
	if lb, ok := q.tm[name]; ok {
		s.bq = fmt.Sprintf("%x/t%d", lb.b.Message(), lb.transmits)
	}
	q.mu.Unlock()
	n.m.nodeLock.RLock()
	_, s.timer = n.m.nodeTimers[name]
	n.m.nodeLock.RUnlock()
	return s
}

func (b *Bench) lastEvents(from int) []evRec {
	b.n.mu.Lock()
	defer b.n.mu.Unlock()
	return append([]evRec(nil), b.n.events[from:]...)
}

func (b *Bench) finish() {
	c := b.c
	for k, v := range b.cl.net.faults {
		c.Res.Faults[k] += v
	}
	if !c.Res.OK {
		c.Res.Logs = map[string][]string{b.n.name: b.n.lastLogs(40)}
	}
	b.sim.Stop()
	if b.n.m != nil && !b.n.m.hasShutdown() {
		_ = b.n.m.Shutdown()
	}
	b.cl.net.closeAll()
	time.Sleep(ms(b.n.cfgp.TCPTimeoutMs)*2 + 20*time.Second)
	synctest.Wait()
	for _, g := range leakedGoroutines() {
		created := ""
		if i := lastIndex(g, "created by "); i >= 0 {
			created = g[i:]
		}
		if contains(created, "zz_verif_") && !contains(g, "memberlist.(*Memberlist)") {
			continue
		}
		c.Violate("goroutine-leak", "", "", "library goroutine still blocked after shutdown:\n%s", g)
		break
	}
}
