package memberlist

// C01 — stale or weaker claims never override newer knowledge (bench mode:
// exact per-claim oracle; direct calls and real packets).

import (
	"fmt"
	"net"
	"time"
)

func init() {
	register(&Scenario{Name: "C01", Gen: genC01, Exec: execC01})
}

var c01AddrA = net.IPv4(10, 0, 0, 50).To4()
var c01AddrB = net.IPv4(10, 0, 0, 51).To4()

// claim op encoding:
//  Kind: alive | suspect | dead | ppalive | ppsuspect | ppdead | ppleft | wait
//  A: incarnation, B: address (0=A,1=B, 2=A other port), C: meta id, D: vsn variant
//  S: sender ("p1","p2","obs","x")   Node: delivery path 0=direct 1=udp 2=compound 3=compressed
func genC01(c *Ctx) *Plan {
	r := c.R
	p := &Plan{Cfg: benchCfg(r), P: map[string]int64{}, YieldOff: []string{"*"}}
	p.Cfg.ReclaimMs = r.pick(0, 0, 2000, 20000)
	p.Cfg.GossipToDeadMs = 600000
	base := int64(r.pick(0, 1, 2, 5, 5, 1<<31, 1<<32-3))
	p.P["base"] = base
	// prior view
	prior := r.pick(0, 1, 1, 2, 3, 4) // absent alive suspect dead left
	p.P["prior"] = int64(prior)
	p.P["prior_addr"] = int64(r.intn(2))
	p.P["age_ms"] = int64(r.pick(0, 0, 100, 1500, 2500, 25000))
	p.P["npup"] = int64(r.rangeI(0, 6))
	senders := []string{"p1", "p2", "p3", "obs", "x"}
	n := r.rangeI(1, 12)
	for i := 0; i < n; i++ {
		kinds := []string{"alive", "alive", "suspect", "suspect", "dead", "dead", "ppalive", "ppsuspect", "ppdead", "ppleft", "wait"}
		k := kinds[r.intn(len(kinds))]
		inc := base + int64(r.pick(-2, -1, -1, 0, 0, 0, 1, 1, 2))
		if inc < 0 {
			inc = 0
		}
		if inc > 1<<32-1 {
			inc = 1<<32 - 1
		}
		op := Op{Kind: k, A: inc, B: int64(r.pick(0, 0, 0, 1, 2)), C: int64(r.intn(3)), D: int64(r.pick(0, 0, 0, 0, 1, 2, 3)), S: senders[r.intn(len(senders))], Node: r.pick(0, 0, 1, 2, 3)}
		if k == "wait" {
			op.A = int64(r.pick(1, 50, 500, 3000, 30000))
		}
		p.Ops = append(p.Ops, op)
	}
	return p
}

func c01Addr(sel int64) (net.IP, uint16) {
	switch sel {
	case 1:
		return c01AddrB, 7946
	case 2:
		return c01AddrA, 7999
	}
	return c01AddrA, 7946
}

func c01Vsn(variant int64) []uint8 {
	switch variant {
	case 1:
		return []uint8{1, 5, 3, 0, 0, 0}
	case 2:
		return []uint8{1, 5, 2} // short
	case 3:
		return []uint8{0, 5, 2, 0, 0, 0} // invalid (pmin 0)
	}
	return []uint8{1, 5, 2, 0, 0, 0}
}

func execC01(c *Ctx) {
	p := c.Plan
	b := newBench(c, p.Cfg, false, nil)
	defer b.finish()
	m := b.n.m
	from := &net.UDPAddr{IP: net.IPv4(10, 0, 0, 60).To4(), Port: 7946}
	npup := int(p.param("npup", 2))
	for i := 0; i < npup; i++ {
		a := alive{Incarnation: 1, Node: fmt.Sprintf("p%d", i+1), Addr: net.IPv4(10, 0, 0, byte(60+i)).To4(), Port: 7946, Vsn: c01Vsn(0)}
		m.aliveNode(&a, nil, false)
	}
	base := uint32(p.param("base", 5))
	pa, pp := c01Addr(p.param("prior_addr", 0))
	prior := int(p.param("prior", 1))
	if prior > 0 {
		a := alive{Incarnation: base, Node: "x", Addr: pa, Port: pp, Meta: []byte("meta0"), Vsn: c01Vsn(0)}
		m.aliveNode(&a, nil, false)
		switch prior {
		case 2:
			m.suspectNode(&suspect{Incarnation: base, Node: "x", From: "p1"})
		case 3:
			m.deadNode(&dead{Incarnation: base, Node: "x", From: "p1"})
		case 4:
			m.deadNode(&dead{Incarnation: base, Node: "x", From: "x"})
		}
	}
	if age := p.param("age_ms", 0); age > 0 {
		b.sim.Run(time.Duration(age) * time.Millisecond)
	}
	reclaimT := ms(p.Cfg.ReclaimMs)
	stale, fresh, reclaims := 0, 0, 0
	for i, op := range p.Ops {
		if op.Kind == "wait" {
			b.sim.Run(time.Duration(op.A) * time.Millisecond)
			continue
		}
		before := b.snap("x")
		now := time.Now()
		inc := uint32(op.A)
		ca, cp := c01Addr(op.B)
		meta := []byte(fmt.Sprintf("meta%d", op.C))
		vsn := c01Vsn(op.D)
		fromName := op.S
		// effective claim after the push/pull translation
		kind := op.Kind
		switch op.Kind {
		case "ppalive":
			kind = "alive"
		case "ppsuspect", "ppdead":
			kind = "suspect"
			fromName = "obs"
		case "ppleft":
			kind = "dead"
			fromName = "x"
		}
		// --- deliver
		path := op.Node
		if len(op.Kind) > 2 && op.Kind[:2] == "pp" {
			st := map[string]NodeStateType{"ppalive": StateAlive, "ppsuspect": StateSuspect, "ppdead": StateDead, "ppleft": StateLeft}[op.Kind]
			m.mergeState([]pushNodeState{{Name: "x", Addr: ca, Port: cp, Meta: meta, Incarnation: inc, State: st, Vsn: vsn}})
			path = 0
		} else {
			var mt messageType
			var body any
			switch kind {
			case "alive":
				mt, body = aliveMsg, &alive{Incarnation: inc, Node: "x", Addr: ca, Port: cp, Meta: meta, Vsn: vsn}
			case "suspect":
				mt, body = suspectMsg, &suspect{Incarnation: inc, Node: "x", From: fromName}
			case "dead":
				mt, body = deadMsg, &dead{Incarnation: inc, Node: "x", From: fromName}
			}
			if path == 0 {
				switch v := body.(type) {
				case *alive:
					m.aliveNode(v, nil, false)
				case *suspect:
					m.suspectNode(v)
				case *dead:
					m.deadNode(v)
				}
			} else {
				raw := mustEncode(mt, body)
				switch path {
				case 2:
					raw = makeCompoundMessage([][]byte{mustEncode(nackRespMsg, &nackResp{SeqNo: 77}), raw}).Bytes()
				}
				b.inject(b.wrapPacket(raw, path == 3, op.D == 1), from)
			}
		}
		b.sim.Settle() // let a suspicion timeout triggered by a confirmation run
		after := b.snap("x")
		c.Reach(fmt.Sprintf("path%d", path))

		// --- oracle
		v := before.view
		what := fmt.Sprintf("claim #%d %s inc=%d addr=%s:%d meta=%s vsn=%v from=%s path=%d on prior %s", i, op.Kind, inc, ca, cp, meta, vsn, fromName, path, v)
		sameAddr := v.Present && v.Addr == ca.String() && v.Port == cp
		permitted := false
		if kind == "alive" && v.Present && !sameAddr {
			if v.State == StateLeft || (v.State == StateDead && reclaimT > 0 && now.Sub(v.Change) > reclaimT) {
				permitted = true
			}
		}
		cstr := map[string]int{"alive": 0, "suspect": 1, "dead": 2}[kind]
		isStale := false
		if v.Present {
			if inc < v.Inc {
				isStale = true
			} else if inc == v.Inc && cstr < strength(v.State) {
				isStale = true
			} else if inc == v.Inc && cstr == strength(v.State) && kind != "suspect" {
				isStale = true
			}
		}
		if permitted {
			reclaims++
			c.Reach("permitted_reclaim")
		}
		if isStale && !permitted {
			stale++
			if before.view != after.view || before.members != after.members || before.nEvents != after.nEvents || before.bq != after.bq || before.timer != after.timer {
				c.Violate("stale-claim-had-effect", "", "obs", "%s: stale/weaker claim changed state: record %s -> %s; members %s -> %s; events %d -> %d; queued broadcast %.40s -> %.40s; timer %v -> %v", what, before.view, after.view, before.members, after.members, before.nEvents, after.nEvents, before.bq, after.bq, before.timer, after.timer)
				return
			}
		} else {
			fresh++
		}
		accelerated := false
		if v.Present && v.State == StateSuspect && kind == "suspect" && inc >= v.Inc && after.view.State == StateDead && after.view.Inc == v.Inc {
			// a new confirmation shortened the suspicion timeout to "now": the node
			// legitimately declares x dead at the held incarnation (C06's subject).
			accelerated = true
			c.Reach("confirmation_fired_timeout")
			want := v
			want.State = StateDead
			want.Change = after.view.Change
			if after.view != want {
				c.Violate("record-not-described-by-claim", "", "obs", "%s: timeout after confirmation produced %s", what, after.view)
				return
			}
		}
		if !accelerated && inc == v.Inc && v.Present && kind == "suspect" && v.State == StateSuspect {
			// equal-rank suspect on suspect: may re-gossip (new confirmer), nothing else
			if before.view != after.view || before.members != after.members || before.nEvents != after.nEvents {
				c.Violate("confirm-changed-state", "", "obs", "%s: equal-rank suspicion changed more than the gossip queue: %s -> %s", what, before.view, after.view)
				return
			}
		}
		if v.Present && !permitted && after.view.Present && rankLess(after.view, v) {
			c.Violate("rank-regression", "", "obs", "%s: view went backwards %s -> %s", what, v, after.view)
			return
		}
		if v.Present && !after.view.Present {
			c.Violate("record-vanished", "", "obs", "%s: record disappeared", what)
			return
		}
		if !accelerated && after.view != before.view && after.view.Present {
			// the new record must be the one the claim describes
			a := after.view
			ok := a.Inc == inc || (!permitted && false)
			switch kind {
			case "alive":
				ok = ok && a.State == StateAlive && a.Addr == ca.String() && a.Port == cp && a.Meta == string(meta)
			case "suspect":
				ok = ok && a.State == StateSuspect && a.Addr == v.Addr && a.Port == v.Port && a.Meta == v.Meta
			case "dead":
				want := StateDead
				if fromName == "x" {
					want = StateLeft
				}
				ok = ok && a.State == want && a.Addr == v.Addr && a.Port == v.Port && a.Meta == v.Meta
			}
			if !v.Present && kind == "alive" && a.State == StateDead && a.Inc == 0 && inc == 0 {
				// an alive with incarnation 0 about an unknown name leaves an unlisted
				// phantom record (dead@0); harmless and outside the statement.
				ok = true
				c.Reach("phantom_dead0_record")
			}
			if !ok {
				c.Violate("record-not-described-by-claim", "", "obs", "%s: new record %s is neither the old one nor the one the claim describes", what, a)
				return
			}
		}
		if after.view.Present && (after.view.State == StateSuspect) != after.timer {
			c.Violate("timer-state-mismatch", "", "obs", "%s: suspicion timer present=%v but record is %s", what, after.timer, after.view)
			return
		}
		// membership events must match the listed-set change (C07 in miniature)
		wasListed := v.Present && (v.State == StateAlive || v.State == StateSuspect)
		isListed := after.view.Present && (after.view.State == StateAlive || after.view.State == StateSuspect)
		evs := b.lastEvents(before.nEvents)
		switch {
		case !wasListed && isListed:
			if len(evs) != 1 || evs[0].Kind != "join" {
				c.Violate("event-mismatch", "", "obs", "%s: became listed but events=%v", what, evKinds(evs))
				return
			}
		case wasListed && !isListed:
			if len(evs) != 1 || evs[0].Kind != "leave" {
				c.Violate("event-mismatch", "", "obs", "%s: became unlisted but events=%v", what, evKinds(evs))
				return
			}
		case wasListed && isListed && v.Meta != after.view.Meta:
			if len(evs) != 1 || evs[0].Kind != "update" {
				c.Violate("event-mismatch", "", "obs", "%s: meta changed but events=%v", what, evKinds(evs))
				return
			}
		default:
			if len(evs) != 0 {
				c.Violate("event-mismatch", "", "obs", "%s: no listed-set change but events=%v", what, evKinds(evs))
				return
			}
		}
	}
	c.Res.Nontrivial = stale > 0 && fresh > 0
	c.Stat("stale_claims", int64(stale))
	c.Stat("fresh_claims", int64(fresh))
	c.Res.FP = fmt.Sprintf("%016x", hash64(hashOps(p.Ops), uint64(p.param("prior", 0)), uint64(p.param("base", 0)), uint64(p.param("age_ms", 0)), uint64(p.Cfg.ReclaimMs)))
	c.Res.Sample = map[string]any{"prior": prior, "base": base, "claims": len(p.Ops)}
}

func evKinds(evs []evRec) []string {
	var o []string
	for _, e := range evs {
		o = append(o, e.Kind+":"+e.Name)
	}
	return o
}
