package memberlist

// C14 — inbound authentication: only traffic sealed under an installed key (and
// the node's own label) is acted on.  Genuine traffic is produced by a real
// sender, captured at the tap, mutated and injected into a quiescent receiver.
// The same machinery (capture -> mutate -> inject -> compare reactions) serves
// C13 (hostile bytes) and C16 (labels).

import (
	"bytes"
	"fmt"
	"net"
	"sort"
	"strings"
	"testing/synctest"
	"time"
)

func init() {
	register(&Scenario{Name: "C14", Gen: genC14, Exec: execC14})
}

// captured genuine traffic
type capMsg struct {
	Kind   string
	Stream bool
	Buf    []byte // packet bytes or the complete client->server stream bytes
	Parts  []int  // stream: boundaries of the individual writes
}

type lab struct { // two-node laboratory: sender S, receiver R (fresh instances on demand)
	c     *Ctx
	sim   *Sim
	cl    *Cluster
	cp    CfgPlan
	tweak func(*Config, string)
	S     *SimNode
	R     *SimNode
	att   *puppet // attacker endpoint (source of injected traffic)
	rgen  int
	emitted []emitRec
	tapOwner string
}

type emitRec struct {
	To   string
	Msgs string // decoded plaintext rendering
}

func labCfg(r *rng) CfgPlan {
	cp := benchCfg(r)
	cp.Encrypt = r.pick(16, 24, 32)
	cp.ProtocolVersion = r.pick(1, 2, 2, 5)
	cp.Label = []string{"", "", "lbl", "a"}[r.intn(4)]
	cp.Compression = r.chance(0.5)
	cp.GossipToDeadMs = 3600_000
	cp.TCPTimeoutMs = 500
	return cp
}

func newLab(c *Ctx, cp CfgPlan, tweak func(*Config, string)) *lab {
	l := &lab{c: c, sim: c.Sim, cp: cp, tweak: tweak}
	l.cl = newCluster(c.Sim, c.Plan)
	l.S = l.cl.addNode("snd", ip4(10, 0, 0, 2), cp)
	l.S.noYieldCb = true
	if err := l.cl.create(l.S, func(conf *Config) { l.quiet(conf); l.applyTweak(conf, "snd") }); err != nil {
		panic(err)
	}
	l.S.m.deschedule()
	l.att = &puppet{name: "att"}
	l.att.ep = l.cl.net.newEndpoint(90, "att", ip4(10, 0, 0, 9), 7946)
	l.att.ep.yieldOff = true
	go func() {
		for {
			select {
			case pk := <-l.att.ep.packetCh:
				_ = pk
			case cn := <-l.att.ep.streamCh:
				_ = cn.Close()
			case <-l.sim.quit:
				return
			}
		}
	}()
	l.cl.net.tapFn = l.onTap
	l.freshR()
	return l
}

func (l *lab) quiet(conf *Config) {
	conf.PushPullInterval = 0
	conf.GossipInterval = 0
}
func (l *lab) applyTweak(conf *Config, who string) {
	if l.tweak != nil {
		l.tweak(conf, who)
	}
}

// freshR replaces the receiver by a pristine instance (same name/address) that
// knows the sender and one more member.
func (l *lab) freshR() {
	if l.R != nil && l.R.m != nil {
		old := l.R
		_ = old.m.Shutdown()
	}
	l.rgen++
	n := &SimNode{sim: l.sim, net: l.cl.net, idx: 1, name: "rcv", ip: ip4(10, 0, 0, 3), port: 7946, cfgp: l.cp, evSeq: &l.cl.evSeq}
	n.meta = []byte("m-rcv")
	n.leaveGate = make(chan struct{}, 1)
	n.shutGate = make(chan struct{}, 1)
	n.noYieldCb = true
	if err := l.cl.create(n, func(conf *Config) { l.quiet(conf); l.applyTweak(conf, "rcv") }); err != nil {
		panic(err)
	}
	n.m.deschedule()
	l.R = n
	// R knows S and a third member "z"
	n.m.aliveNode(&alive{Incarnation: 1, Node: "snd", Addr: l.S.ip, Port: 7946, Vsn: l.S.conf.BuildVsnArray()}, nil, false)
	n.m.aliveNode(&alive{Incarnation: 3, Node: "z", Addr: ip4(10, 0, 0, 4), Port: 7946, Vsn: c01Vsn(0)}, nil, false)
	// drain the broadcast queue so reactions do not depend on piggybacked gossip
	n.m.broadcasts.Reset()
	synctest.Wait()
}

func (l *lab) onTap(r *tapRec) {
	if r.From != "rcv" {
		return
	}
	if r.Stream {
		return
	}
	var parts []string
	if l.R != nil {
		msgs, err := decodePacket(l.R.conf, r.Buf)
		if err != nil {
			parts = append(parts, "undecodable:"+err.Error())
		}
		for _, m := range msgs {
			parts = append(parts, fmt.Sprintf("%d:%x", m.Type, m.Body))
		}
	}
	l.emitted = append(l.emitted, emitRec{r.To, strings.Join(parts, ",")})
}

// capture: make S emit genuine traffic toward R's address and record it.
func (l *lab) capture() []capMsg {
	var caps []capMsg
	S := l.S.m
	rAddr := Address{Addr: l.R.ep.addr, Name: "rcv"}
	prevTap := l.cl.net.tapFn
	var got [][]byte
	l.cl.net.tapFn = func(r *tapRec) {
		if r.From == "snd" && !r.Stream {
			got = append(got, r.Buf)
		}
	}
	// black-hole so R is not affected during capture
	l.cl.net.pktFilter = func(from, to *endpoint, buf []byte) bool { return true }
	pk := func(kind string, payload []byte) {
		got = nil
		_ = S.rawSendMsgPacket(rAddr, nil, payload)
		if len(got) == 1 {
			caps = append(caps, capMsg{Kind: kind, Buf: got[0]})
		}
	}
	enc := func(t messageType, v any) []byte { return mustEncode(t, v) }
	pk("ping", enc(pingMsg, &ping{SeqNo: 4242, Node: "rcv", SourceAddr: l.S.ip, SourcePort: 7946, SourceNode: "snd"}))
	pk("indirect", enc(indirectPingMsg, &indirectPingReq{SeqNo: 4343, Target: ip4(10, 0, 0, 4), Port: 7946, Node: "z", Nack: true, SourceAddr: l.S.ip, SourcePort: 7946, SourceNode: "snd"}))
	pk("ack", enc(ackRespMsg, &ackResp{SeqNo: 77, Payload: []byte("pl")}))
	pk("nack", enc(nackRespMsg, &nackResp{SeqNo: 78}))
	pk("alive", enc(aliveMsg, &alive{Incarnation: 9, Node: "newbie", Addr: ip4(10, 0, 0, 7), Port: 7946, Meta: []byte("meta-newbie"), Vsn: c01Vsn(0)}))
	pk("suspect", enc(suspectMsg, &suspect{Incarnation: 3, Node: "z", From: "snd"}))
	pk("dead", enc(deadMsg, &dead{Incarnation: 3, Node: "z", From: "snd"}))
	pk("user", append([]byte{byte(userMsg)}, []byte("user-payload-0123456789abcdef")...))
	pk("compound", makeCompoundMessage([][]byte{enc(aliveMsg, &alive{Incarnation: 2, Node: "c1", Addr: ip4(10, 0, 0, 8), Port: 7946, Vsn: c01Vsn(0)}), append([]byte{byte(userMsg)}, []byte("in-compound")...), enc(suspectMsg, &suspect{Incarnation: 3, Node: "z", From: "q"})}).Bytes())
	l.cl.net.pktFilter = nil
	l.cl.net.tapFn = prevTap
	// streams: record what S writes on a connection to a sink puppet at R's address? Use
	// a sink endpoint instead of R so that R stays pristine.
	sink := l.cl.net.newEndpoint(91, "sink", ip4(10, 0, 0, 11), 7946)
	sink.yieldOff = true
	sinkAddr := Address{Addr: sink.addr, Name: "rcv"}
	var sbuf []byte
	var sparts []int
	sinkDone := make(chan struct{}, 8)
	go func() {
		for {
			select {
			case cn := <-sink.streamCh:
				go func() {
					b := make([]byte, 65536)
					for {
						k, err := cn.Read(b)
						if k > 0 {
							sbuf = append(sbuf, b[:k]...)
						}
						if err != nil {
							break
						}
						// reply nothing; the sender will time out or fail - fine
						if len(sbuf) > 0 {
							_ = cn.SetReadDeadline(time.Now().Add(50 * time.Millisecond))
						}
					}
					_ = cn.Close()
					sinkDone <- struct{}{}
				}()
			case <-sink.packetCh:
			case <-l.sim.quit:
				return
			}
		}
	}()
	grab := func(kind string, f func()) {
		sbuf, sparts = nil, nil
		done := false
		go func() { f(); done = true }()
		l.sim.RunUntil(l.sim.Now()+3*time.Second, func() bool { return done })
		l.sim.Run(100 * time.Millisecond)
		if len(sbuf) > 0 {
			caps = append(caps, capMsg{Kind: kind, Stream: true, Buf: append([]byte(nil), sbuf...), Parts: sparts})
		}
	}
	grab("s-user", func() { _ = S.sendUserMsg(sinkAddr, []byte("reliable-user-message-payload")) })
	grab("s-pushpull", func() { _, _, _ = S.sendAndReceiveState(sinkAddr, true) })
	grab("s-ping", func() {
		_, _ = S.sendPingAndWaitForAck(sinkAddr, ping{SeqNo: 555, Node: "rcv"}, time.Now().Add(300*time.Millisecond))
	})
	sink.mu.Lock()
	sink.down = true
	sink.mu.Unlock()
	return caps
}

// reaction of R to one injected packet / stream
type reaction struct {
	Digest   string
	Changed  bool
	Msgs     []string
	Merged   []string
	Events   []string
	Emitted  []string
	Conflicts int
	Reply    string // stream: decoded reply class
}

func (r reaction) none() bool {
	return !r.Changed && len(r.Msgs) == 0 && len(r.Merged) == 0 && len(r.Events) == 0 && len(r.Emitted) == 0 && r.Conflicts == 0
}

func (r reaction) key() string {
	return fmt.Sprintf("%v|%v|%v|%v|%v|%d|%s", r.Changed, r.Msgs, r.Merged, r.Events, r.Emitted, r.Conflicts, r.Reply)
}

type rmark struct {
	digest string
	msgs, merged, events, confl int
}

func (l *lab) mark() rmark {
	R := l.R
	R.mu.Lock()
	defer R.mu.Unlock()
	l.emitted = nil
	return rmark{R.digest(), len(R.msgs), len(R.merged), len(R.events), len(R.conflicts)}
}

func (l *lab) since(m rmark) reaction {
	R := l.R
	var rc reaction
	rc.Digest = R.digest()
	rc.Changed = rc.Digest != m.digest
	R.mu.Lock()
	for _, x := range R.msgs[m.msgs:] {
		rc.Msgs = append(rc.Msgs, fmt.Sprintf("%x", x.Buf))
	}
	for _, x := range R.merged[m.merged:] {
		rc.Merged = append(rc.Merged, fmt.Sprintf("%x", x.Buf))
	}
	for _, e := range R.events[m.events:] {
		rc.Events = append(rc.Events, e.Kind+":"+e.Name+":"+e.Meta)
	}
	rc.Conflicts = len(R.conflicts) - m.confl
	R.mu.Unlock()
	for _, e := range l.emitted {
		rc.Emitted = append(rc.Emitted, e.To+"="+e.Msgs)
	}
	sort.Strings(rc.Emitted)
	if rc.Changed {
		// normalise the digest change: StateChange times differ between instances
		rc.Digest = stripTimes(rc.Digest)
	}
	return rc
}

func stripTimes(d string) string {
	// digest entries look like name=state@inc addr meta/vsn/ns ; drop the /ns suffix
	parts := strings.Split(d, ";")
	for i, p := range parts {
		if j := strings.LastIndex(p, "/"); j >= 0 && !strings.Contains(p[j:], "|") {
			parts[i] = p[:j]
		}
	}
	return strings.Join(parts, ";")
}

func (l *lab) injectPacket(buf []byte) reaction {
	mk := l.mark()
	l.R.ep.deliverPacket(append([]byte(nil), buf...), &net.UDPAddr{IP: l.S.ip, Port: 7946})
	l.sim.Settle()
	// indirect pings arm a nack timer: let ProbeTimeout pass so the reaction is complete
	l.sim.Run(l.R.conf.ProbeTimeout + 2*time.Millisecond)
	l.sim.Settle()
	return l.since(mk)
}

// classify the bytes R wrote back on a stream
func (l *lab) classifyReply(reply []byte) string {
	if len(reply) == 0 {
		return "none"
	}
	R := l.R
	buf := reply
	if R.conf.EncryptionEnabled() && len(buf) > 5 && messageType(buf[0]) == encryptMsg {
		aad := append(append([]byte(nil), buf[:5]...), []byte(R.conf.Label)...)
		plain, err := decryptPayload(R.conf.Keyring.GetKeys(), append([]byte(nil), buf[5:]...), aad)
		if err != nil {
			return "undecryptable"
		}
		buf = plain
	} else if R.conf.EncryptionEnabled() && R.conf.GossipVerifyOutgoing {
		return "PLAINTEXT-REPLY"
	}
	if len(buf) == 0 {
		return "empty"
	}
	if messageType(buf[0]) == compressMsg {
		if pl, err := decompressPayload(buf[1:]); err == nil && len(pl) > 0 {
			buf = pl
		}
	}
	switch messageType(buf[0]) {
	case errMsg:
		return "error-reply"
	case pushPullMsg:
		return "pushpull-reply"
	case ackRespMsg:
		return fmt.Sprintf("ack:%x", buf[1:])
	}
	return fmt.Sprintf("type%d", buf[0])
}

func (l *lab) injectStream(data []byte) reaction {
	mk := l.mark()
	var reply []byte
	done := false
	go func() {
		reply, _ = puppetStream(l.sim, l.att.ep, l.R, data, false, l.R.conf.TCPTimeout+200*time.Millisecond)
		done = true
	}()
	l.sim.RunUntil(l.sim.Now()+l.R.conf.TCPTimeout*2+time.Second, func() bool { return done })
	l.sim.Settle()
	rc := l.since(mk)
	rc.Reply = l.classifyReply(reply)
	return rc
}

func (l *lab) finish() {
	c := l.c
	if !c.Res.OK {
		c.Res.Logs = map[string][]string{"rcv": l.R.lastLogs(30)}
	}
	l.sim.Stop()
	for _, n := range []*SimNode{l.S, l.R} {
		if n != nil && n.m != nil && !n.m.hasShutdown() {
			_ = n.m.Shutdown()
		}
	}
	l.cl.net.closeAll()
	time.Sleep(5 * time.Second)
	synctest.Wait()
}

// ---------------------------------------------------------------- C14 proper

func genC14(c *Ctx) *Plan {
	r := c.R
	p := &Plan{Cfg: labCfg(r), P: map[string]int64{}, YieldOff: []string{"*"}}
	p.P["msg"] = int64(r.intn(64))
	p.P["mode"] = int64(r.pick(0, 1, 2, 3)) // 3: key rotation interleaved with a stream in flight; 0: bit flips (complete for the sampled message), 1: structural variants, 2: random splices/truncations
	p.P["extra_keys"] = int64(r.intn(3))
	return p
}

func execC14(c *Ctx) {
	p := c.Plan
	nExtra := int(p.param("extra_keys", 0))
	removedKey := simKey(16, 0x70)
	foreignKey := simKey(32, 0x90)
	l := newLab(c, p.Cfg, func(conf *Config, who string) {
		// both sides: primary simKey(sz,1) plus optional extra installed keys
		for i := 0; i < nExtra; i++ {
			_ = conf.Keyring.AddKey(simKey(16, byte(0x30+i)))
		}
	})
	defer l.finish()
	caps := l.capture()
	if len(caps) == 0 {
		c.Res.HarnessErr = "nothing captured"
		c.Res.OK = false
		return
	}
	g := caps[int(p.param("msg", 0))%len(caps)]
	inject := func(b []byte) reaction {
		if g.Stream {
			return l.injectStream(b)
		}
		return l.injectPacket(b)
	}
	orig := inject(g.Buf)
	if orig.none() && (orig.Reply == "" || orig.Reply == "none") && g.Kind != "nack" && g.Kind != "ack" {
		c.Res.HarnessErr = "genuine " + g.Kind + " had no observable effect: " + orig.key()
		c.Res.OK = false
		return
	}
	l.freshR()
	labelLen := 0
	if p.Cfg.Label != "" {
		labelLen = 2 + len(p.Cfg.Label)
	}
	variants := 0
	accepted := 0
	// strict: the variant is not sealed under an installed key with the receiver's label (plaintext,
	// foreign / removed key, other label): "treated like the original" is then a violation too
	strict := false
	check := func(desc string, sig string, v []byte) bool {
		variants++
		rc := inject(v)
		if rc.Reply == "PLAINTEXT-REPLY" {
			c.Violate("plaintext-reply", "", "rcv", "%s of genuine %s: receiver answered in clear", desc, g.Kind)
			return false
		}
		if strict {
			if !rc.none() || (rc.Reply != "" && rc.Reply != "none" && rc.Reply != "error-reply") {
				l.freshR()
				c.Violate("unauthenticated-traffic-acted-on", sig, "rcv", "%s of genuine %s (cfg enc=%d proto=%d label=%q): the receiver acted on it: %s", desc, g.Kind, p.Cfg.Encrypt, p.Cfg.ProtocolVersion, p.Cfg.Label, rc.key())
				return false
			}
			return true
		}
		if rc.key() == orig.key() {
			if !rc.none() {
				l.freshR()
			}
			accepted++
			return true
		}
		if rc.none() {
			if rc.Reply != "" && rc.Reply != "none" && rc.Reply != "error-reply" {
				c.Violate("rejected-stream-got-reply", sig, "rcv", "%s of genuine %s: no state effect but reply %q (original's reply: %q; only the generic error reply is allowed for rejected streams)", desc, g.Kind, rc.Reply, orig.Reply)
				return false
			}
			return true
		}
		// some effect: must be identical to the reaction to the original
		same := rc.key() == orig.key()
		l.freshR()
		if same {
			accepted++
			return true
		}
		c.Violate("tampered-traffic-acted-on", sig, "rcv", "%s of genuine %s (%d bytes, cfg enc=%d proto=%d label=%q): receiver reacted differently from both 'nothing' and 'as to the original'.\n  original: %s\n  variant:  %s", desc, g.Kind, len(g.Buf), p.Cfg.Encrypt, p.Cfg.ProtocolVersion, p.Cfg.Label, orig.key(), rc.key())
		return false
	}
	// position classes
	vsnPos := labelLen
	if g.Stream {
		vsnPos = labelLen + 5
	}
	switch p.param("mode", 0) {
	case 0:
		// every single-bit flip of the message (complete enumeration)
		for i := 0; i < len(g.Buf); i++ {
			for bit := 0; bit < 8; bit++ {
				v := append([]byte(nil), g.Buf...)
				v[i] ^= 1 << bit
				sig := ""
				if i == vsnPos {
					sig = "C14/version-byte-flip"
				}
				if !check(fmt.Sprintf("bit flip at byte %d bit %d", i, bit), sig, v) {
					if sig != "" {
						// known-finding class: keep going to find other classes
						c.Res.Stats["vsn_flip_hits"]++
					}
					return
				}
			}
		}
		c.Reach("all_bit_flips")
	case 1:
		body := g.Buf[labelLen:]
		// plaintext original: decrypt with the real key and send the inner bytes unsealed
		var inner []byte
		if !g.Stream {
			if pl, err := decryptPayload(l.S.conf.Keyring.GetKeys(), append([]byte(nil), body...), []byte(p.Cfg.Label)); err == nil {
				inner = pl
			}
		} else if len(body) > 5 {
			aad := append(append([]byte(nil), body[:5]...), []byte(p.Cfg.Label)...)
			if pl, err := decryptPayload(l.S.conf.Keyring.GetKeys(), append([]byte(nil), body[5:]...), aad); err == nil {
				inner = pl
			}
		}
		if inner == nil {
			c.Res.HarnessErr = "could not open genuine message"
			c.Res.OK = false
			return
		}
		withLabel := func(lbl string, b []byte) []byte {
			if lbl == "" {
				return b
			}
			return append(makeLabelHeader(lbl, nil), b...)
		}
		strict = true
		if !check("plaintext original", "", withLabel(p.Cfg.Label, inner)) {
			return
		}
		seal := func(key []byte, aadLabel string) []byte {
			var out bytes.Buffer
			vsn := l.S.m.encryptionVersion()
			if !g.Stream {
				_ = encryptPayload(vsn, key, inner, []byte(aadLabel), &out)
				return out.Bytes()
			}
			out.WriteByte(byte(encryptMsg))
			ln := encryptedLength(vsn, len(inner))
			out.Write([]byte{byte(ln >> 24), byte(ln >> 16), byte(ln >> 8), byte(ln)})
			aad := append(append([]byte(nil), out.Bytes()[:5]...), []byte(aadLabel)...)
			_ = encryptPayload(vsn, key, inner, aad, &out)
			return out.Bytes()
		}
		if !check("sealed under a foreign key", "", withLabel(p.Cfg.Label, seal(foreignKey, p.Cfg.Label))) {
			return
		}
		if !check("sealed under a removed key", "", withLabel(p.Cfg.Label, seal(removedKey, p.Cfg.Label))) {
			return
		}
		if !check("sealed with another label as associated data", "", withLabel(p.Cfg.Label, seal(l.S.conf.Keyring.GetPrimaryKey(), p.Cfg.Label+"x"))) {
			return
		}
		if !check("genuine ciphertext under another label header", "", withLabel("other", body)) {
			return
		}
		if p.Cfg.Label != "" {
			if !check("label header stripped", "", body) {
				return
			}
			if !check("label header doubled", "", withLabel(p.Cfg.Label, g.Buf)) {
				return
			}
		} else if !check("label header added", "", withLabel("lbl", body)) {
			return
		}
		// a key installed only after removal: install removedKey on R, remove it again, replay
		// In half of the runs a further key is installed after it, so the removed key sits in the
		// middle of the ring; that later key must survive the removal (positive control below).
		lateKey := simKey(16, 0x71)
		useLate := c.Seed%2 == 0
		_ = l.R.conf.Keyring.AddKey(removedKey)
		if useLate {
			_ = l.R.conf.Keyring.AddKey(lateKey)
		}
		_ = l.R.conf.Keyring.RemoveKey(removedKey)
		if useLate {
			rc := inject(withLabel(p.Cfg.Label, seal(lateKey, p.Cfg.Label)))
			if rc.key() != orig.key() {
				c.Violate("installed-secondary-key-rejected", "", "rcv", "genuine %s sealed under a key installed after the removed one (ring: primary, %d extras, removed, late; then RemoveKey(removed)) was not treated like the original:\n  original: %s\n  got: %s", g.Kind, nExtra, orig.key(), rc.key())
				return
			}
			// same ring again for the replay under the removed key
			l.freshR()
			_ = l.R.conf.Keyring.AddKey(removedKey)
			_ = l.R.conf.Keyring.AddKey(lateKey)
			_ = l.R.conf.Keyring.RemoveKey(removedKey)
			c.Reach("removed_key_in_mid_ring")
		}
		if !check("sealed under a key that was installed and removed again", "", withLabel(p.Cfg.Label, seal(removedKey, p.Cfg.Label))) {
			return
		}
		// the same when the receiver's ring was *constructed* from a key list that names the later
		// removed key more than once (a merged or hand-edited key file)
		l.freshR()
		if kr, err := NewKeyring([][]byte{removedKey, simKey(16, 0x72), removedKey}, l.R.conf.Keyring.GetPrimaryKey()); err == nil {
			rk := l.R.conf.Keyring
			rk.l.Lock()
			rk.keys = kr.GetKeys()
			rk.l.Unlock()
			_ = rk.RemoveKey(removedKey)
			c.Reach("removed_key_listed_twice_at_construction")
			if !check("sealed under a key that was listed twice when the ring was constructed and then removed", "", withLabel(p.Cfg.Label, seal(removedKey, p.Cfg.Label))) {
				return
			}
		}
		l.freshR() // back to the scenario's own ring
		// sanity (positive control): sealed under a secondary installed key must be accepted as the original
		if nExtra > 0 {
			rc := inject(withLabel(p.Cfg.Label, seal(simKey(16, 0x30), p.Cfg.Label)))
			l.freshR()
			if rc.key() != orig.key() {
				c.Violate("installed-secondary-key-rejected", "", "rcv", "genuine %s sealed under an installed non-primary key was not treated like the original:\n  original: %s\n  got: %s", g.Kind, orig.key(), rc.key())
				return
			}
			c.Reach("secondary_key_accepted")
		}
		c.Reach("structural_variants")
	case 2:
		r := newRng(hash64(c.Seed, 0xc14))
		other := caps[r.intn(len(caps))]
		for k := 0; k < 60; k++ {
			var v []byte
			switch r.intn(4) {
			case 0: // truncation
				v = append([]byte(nil), g.Buf[:r.intn(len(g.Buf))]...)
			case 1: // splice prefix of g with suffix of other
				a := r.intn(len(g.Buf) + 1)
				bq := r.intn(len(other.Buf) + 1)
				v = append(append([]byte(nil), g.Buf[:a]...), other.Buf[bq:]...)
			case 2: // byte overwrite
				v = append([]byte(nil), g.Buf...)
				v[r.intn(len(v))] = byte(r.u64())
			case 3: // extension
				v = append(append([]byte(nil), g.Buf...), r.bytes(1+r.intn(20))...)
			}
			genuine := false
			for _, cm := range caps {
				if bytes.Equal(cm.Buf, v) {
					genuine = true // the splice reproduced another genuine message verbatim
				}
			}
			if genuine {
				continue
			}
			sig := ""
			if len(v) > vsnPos && len(g.Buf) > vsnPos && v[vsnPos] != g.Buf[vsnPos] && bytes.Equal(v[:vsnPos], g.Buf[:vsnPos]) && len(v) == len(g.Buf) && bytes.Equal(v[vsnPos+1:], g.Buf[vsnPos+1:]) {
				sig = "C14/version-byte-flip"
			}
			if !check(fmt.Sprintf("random variant #%d", k), sig, v) {
				return
			}
		}
		c.Reach("random_variants")
	}
	if p.param("mode", 0) == 3 {
		// Key rotation racing a stream in flight: the frame is sealed under an installed
		// secondary key; the receiver has consumed the first k bytes when the key is
		// removed; the rest arrives afterwards. Only currently installed keys may open it.
		var sg *capMsg
		for i := range caps {
			if caps[i].Stream && caps[i].Kind == []string{"s-user", "s-pushpull", "s-ping"}[int(p.param("msg", 0))%3] {
				sg = &caps[i]
			}
		}
		if sg != nil {
			k2 := simKey(16, 0x55)
			body := sg.Buf[labelLen:]
			aad := append(append([]byte(nil), body[:5]...), []byte(p.Cfg.Label)...)
			inner, err := decryptPayload(l.S.conf.Keyring.GetKeys(), append([]byte(nil), body[5:]...), aad)
			if err != nil {
				c.Res.HarnessErr = "cannot open genuine stream"
				c.Res.OK = false
				return
			}
			var out bytes.Buffer
			vsn := l.S.m.encryptionVersion()
			out.WriteByte(byte(encryptMsg))
			ln := encryptedLength(vsn, len(inner))
			out.Write([]byte{byte(ln >> 24), byte(ln >> 16), byte(ln >> 8), byte(ln)})
			aad2 := append(append([]byte(nil), out.Bytes()[:5]...), []byte(p.Cfg.Label)...)
			_ = encryptPayload(vsn, k2, inner, aad2, &out)
			frame := out.Bytes()
			if p.Cfg.Label != "" {
				frame = append(makeLabelHeader(p.Cfg.Label, nil), frame...)
			}
			streamTwoPhase := func(cut int, between func()) reaction {
				mk := l.mark()
				var reply []byte
				done := false
				go func() {
					defer func() { done = true }()
					cn, err := l.att.ep.DialAddressTimeout(Address{Addr: l.R.ep.addr, Name: "rcv"}, time.Second)
					if err != nil {
						return
					}
					defer cn.Close()
					_, _ = cn.Write(frame[:cut])
					synctestWaitQuiet(l.sim)
					between()
					_, _ = cn.Write(frame[cut:])
					_ = cn.SetReadDeadline(time.Now().Add(l.R.conf.TCPTimeout + 100*time.Millisecond))
					buf := make([]byte, 65536)
					for {
						k, rerr := cn.Read(buf)
						reply = append(reply, buf[:k]...)
						if rerr != nil {
							break
						}
					}
				}()
				l.sim.RunUntil(l.sim.Now()+2*l.R.conf.TCPTimeout+time.Second, func() bool { return done })
				l.sim.Settle()
				rc := l.since(mk)
				rc.Reply = l.classifyReply(reply)
				return rc
			}
			cuts := []int{labelLen + 1, labelLen + 3, labelLen + 5, labelLen + 5 + 13, len(frame) - 1}
			for _, cut := range cuts {
				if cut <= 0 || cut >= len(frame) {
					continue
				}
				// control: key stays installed -> same reaction as the original
				l.freshR()
				_ = l.R.conf.Keyring.AddKey(k2)
				ctl := streamTwoPhase(cut, func() {})
				if ctl.key() != (func() string { o := orig; return o.key() })() && sg.Kind == g.Kind {
					c.Violate("installed-secondary-key-rejected", "", "rcv", "stream %s sealed under an installed secondary key, delivered in two pieces (cut %d): reaction differs from the original\n  original: %s\n  got: %s", sg.Kind, cut, orig.key(), ctl.key())
					return
				}
				l.freshR()
				_ = l.R.conf.Keyring.AddKey(k2)
				R := l.R
				variants++
				rc := streamTwoPhase(cut, func() { _ = R.conf.Keyring.RemoveKey(k2) })
				if !rc.none() || (rc.Reply != "" && rc.Reply != "none" && rc.Reply != "error-reply") {
					c.Violate("removed-key-still-accepted", "", "rcv", "stream %s sealed under key K2: the receiver had consumed %d of %d bytes when K2 was removed from its keyring, the rest arrived afterwards and was still acted on: %s", sg.Kind, cut, len(frame), rc.key())
					return
				}
			}
			c.Reach("rotation_interleave")
			l.freshR()
		}
	}
	c.Res.Nontrivial = variants > 0
	c.Stat("variants", int64(variants))
	c.Stat("variants_equivalent_to_original", int64(accepted))
	c.Reach("kind_" + g.Kind)
	c.Res.FP = fmt.Sprintf("%016x", hash64(hashStr(g.Kind), uint64(p.param("mode", 0)), uint64(p.Cfg.Encrypt), uint64(p.Cfg.ProtocolVersion), hashStr(p.Cfg.Label), uint64(nExtra), uint64(boolInt(p.Cfg.Compression))))
	c.Res.Sample = map[string]any{"genuine": g.Kind, "bytes": len(g.Buf), "mode": p.param("mode", 0), "variants": variants}
}

func boolInt(b bool) int {
	if b {
		return 1
	}
	return 0
}

// synctestWaitQuiet: called from a harness goroutine; gives the library goroutines
// time to consume what was written (a tiny virtual sleep; the driver keeps running).
func synctestWaitQuiet(sim *Sim) {
	select {
	case <-time.After(time.Millisecond):
	case <-sim.quit:
	}
}
