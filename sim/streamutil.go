package memberlist

// Helpers to build stream payloads the way a peer would (harness side).

import (
	"bytes"
	"net"
	"time"

	"github.com/hashicorp/go-msgpack/v2/codec"
)

// buildPushPull encodes a push/pull message body (before compression/encryption).
func buildPushPull(join bool, nodes []pushNodeState, user []byte, declNodes, declUser int) []byte {
	buf := bytes.NewBuffer(nil)
	buf.WriteByte(byte(pushPullMsg))
	hd := codec.MsgpackHandle{}
	enc := codec.NewEncoder(buf, &hd)
	h := pushPullHeader{Nodes: len(nodes), UserStateLen: len(user), Join: join}
	if declNodes >= 0 {
		h.Nodes = declNodes
	}
	if declUser >= 0 {
		h.UserStateLen = declUser
	}
	_ = enc.Encode(&h)
	for i := range nodes {
		_ = enc.Encode(&nodes[i])
	}
	buf.Write(user)
	return buf.Bytes()
}

func buildUserStream(msg []byte, declLen int) []byte {
	buf := bytes.NewBuffer(nil)
	buf.WriteByte(byte(userMsg))
	hd := codec.MsgpackHandle{}
	enc := codec.NewEncoder(buf, &hd)
	h := userMsgHeader{UserMsgLen: len(msg)}
	if declLen >= 0 {
		h.UserMsgLen = declLen
	}
	_ = enc.Encode(&h)
	buf.Write(msg)
	return buf.Bytes()
}

// wrapStreamFor applies the stream send pipeline of a peer configured like n
// (compression, encryption under the primary key, label header).
func wrapStreamFor(n *SimNode, body []byte, withLabel bool) []byte {
	return wrapStreamOpt(n, body, withLabel, true)
}

func wrapStreamOpt(n *SimNode, body []byte, withLabel, allowCompress bool) []byte {
	conf := n.conf
	if conf.EnableCompression && allowCompress {
		if cb, err := compressPayload(body, conf.MsgpackUseNewTimeFormat); err == nil {
			body = cb.Bytes()
		}
	}
	if conf.EncryptionEnabled() && conf.GossipVerifyOutgoing {
		enc, err := n.m.encryptLocalState(body, conf.Label)
		if err != nil {
			panic(err)
		}
		body = enc
	}
	if withLabel && conf.Label != "" {
		body = append(makeLabelHeader(conf.Label, nil), body...)
	}
	return body
}

// puppetStream dials the node from a puppet endpoint, writes data, reads the
// reply until EOF / maxWait and closes. Returns the reply bytes.
func puppetStream(sim *Sim, from *endpoint, to *SimNode, data []byte, closeAfterWrite bool, maxWait time.Duration) (reply []byte, err error) {
	cn, err := from.DialAddressTimeout(Address{Addr: to.ep.addr, Name: to.name}, time.Second)
	if err != nil {
		return nil, err
	}
	defer cn.Close()
	if len(data) > 0 {
		if _, err := cn.Write(data); err != nil {
			return nil, err
		}
	}
	if closeAfterWrite {
		return nil, nil
	}
	_ = cn.SetReadDeadline(time.Now().Add(maxWait))
	buf := make([]byte, 65536)
	for {
		k, rerr := cn.Read(buf)
		reply = append(reply, buf[:k]...)
		if rerr != nil {
			break
		}
	}
	return reply, nil
}

func ip4(a, b, c, d byte) net.IP { return net.IPv4(a, b, c, d).To4() }
