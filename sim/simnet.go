package memberlist

// Simulated network: packet transport with seeded per-packet fates, stream
// connections with cut/stall/fragment faults, partitions, wire tap.

import (
	"errors"
	"fmt"
	"io"
	"net"
	"sync"
	"time"
)

type timeoutErr struct{ op string }

func (e *timeoutErr) Error() string   { return "sim: i/o timeout (" + e.op + ")" }
func (e *timeoutErr) Timeout() bool   { return true }
func (e *timeoutErr) Temporary() bool { return true }

var errSimRefused = errors.New("sim: connection refused")
var errSimReset = errors.New("sim: connection reset by peer")
var errSimClosed = errors.New("sim: transport closed")

// NetPlan holds the fault profile of a run (part of the Plan; JSON).
type NetPlan struct {
	Loss      float64 `json:"loss,omitempty"`      // iid packet loss probability
	Dup       float64 `json:"dup,omitempty"`       // duplication probability
	MinDelay  int64   `json:"min_delay,omitempty"` // ns
	MaxDelay  int64   `json:"max_delay,omitempty"` // ns (uniform in [min,max])
	HeavyTail float64 `json:"heavy,omitempty"`     // prob. that a packet gets up to 20x max delay
	StreamCut float64 `json:"stream_cut,omitempty"` // prob. a stream is cut at a random byte
	StreamStall float64 `json:"stream_stall,omitempty"`
	StreamBlock float64 `json:"stream_block,omitempty"` // the peer stops reading: a write blocks until its deadline
	StreamFrag bool   `json:"stream_frag,omitempty"` // fragment reads
	StreamDelay int64 `json:"stream_delay,omitempty"` // max per-write latency ns
	DialRefuse float64 `json:"dial_refuse,omitempty"`
	Until     int64   `json:"until,omitempty"` // faults active while now < Until (0 = always)
	Parts     []Partition `json:"parts,omitempty"`
}

type Partition struct {
	From  int64 `json:"from"` // ns
	To    int64 `json:"to"`
	A     []int `json:"a"` // node indices on side A; everyone else side B
	OneWay bool `json:"one_way,omitempty"` // only A->B blocked
	UDP   bool  `json:"udp"`
	TCP   bool  `json:"tcp"`
}

type tapRec struct {
	Seq    int
	T      time.Duration
	From   string // endpoint name
	To     string // addr
	Stream bool
	Conn   int
	Buf    []byte
	Accepted bool // transport accepted it (not after shutdown)
}

type SimNet struct {
	sim   *Sim
	plan  NetPlan
	seed  uint64
	mu    sync.Mutex
	eps   map[string]*endpoint // by ip:port
	epList []*endpoint
	connSeq int
	conns []*simConn

	tapOn  bool
	tap    []tapRec
	tapCap int
	tapFn  func(r *tapRec) // called (under no lock) for every tapped buffer

	faults map[string]int64
	holdEvents bool // scenario hook: deliveries are queued but not executed
	connFault func(id int, cl, sv *endpoint) (c2sCut, s2cCut int64, reset bool) // scenario hook: arm cuts on a new conn (-1 = none)
	pktFilter func(from, to *endpoint, buf []byte) bool // true = drop (scenario hook)
	crossDeliver func(from *endpoint, buf []byte) []*endpoint // extra recipients (C16)
}

func newSimNet(sim *Sim, plan NetPlan) *SimNet {
	return &SimNet{sim: sim, plan: plan, seed: hash64(sim.seed, 0x6e6574), eps: map[string]*endpoint{}, faults: map[string]int64{}, tapCap: 20000}
}

func (n *SimNet) fault(kind string) {
	n.mu.Lock()
	n.faults[kind]++
	n.mu.Unlock()
}

func (n *SimNet) faultsActive() bool {
	return n.plan.Until == 0 || int64(n.sim.Now()) < n.plan.Until
}

func (n *SimNet) blocked(from, to *endpoint, tcp bool) bool {
	now := int64(n.sim.Now())
	for _, p := range n.plan.Parts {
		if now < p.From || now >= p.To {
			continue
		}
		if tcp && !p.TCP || !tcp && !p.UDP {
			continue
		}
		fa, ta := false, false
		for _, i := range p.A {
			if i == from.idx {
				fa = true
			}
			if i == to.idx {
				ta = true
			}
		}
		if fa && !ta {
			return true
		}
		if !p.OneWay && ta && !fa {
			return true
		}
	}
	return false
}

type endpoint struct {
	net  *SimNet
	idx  int
	name string
	ip   net.IP
	port int
	addr string

	packetCh chan *Packet
	streamCh chan net.Conn

	mu       sync.Mutex
	inboxP   []*Packet
	inboxS   []net.Conn
	pumpSig  chan struct{}
	closed   bool // Shutdown() called by the library
	closedCh chan struct{}
	down     bool // black-holed by the harness (crash)
	failTo   map[string]bool // destinations for which WriteToAddress returns an error
	detached bool // replaced by a restarted instance
	sendSeq  uint64
	dialSeq  uint64

	ShutdownCalls   int
	WritesAfterShut int
	DialsAfterShut  int
	slowNs          int64 // extra inbound delay (slow node fault)
	onShutdown      func()
	yieldOff        bool
}

func (n *SimNet) newEndpoint(idx int, name string, ip net.IP, port int) *endpoint {
	ep := &endpoint{
		net: n, idx: idx, name: name, ip: ip, port: port,
		addr:     net.JoinHostPort(ip.String(), fmt.Sprint(port)),
		packetCh: make(chan *Packet),
		streamCh: make(chan net.Conn),
		pumpSig:  make(chan struct{}, 1),
		closedCh: make(chan struct{}),
	}
	n.mu.Lock()
	if old := n.eps[ep.addr]; old != nil {
		old.detached = true
	}
	n.eps[ep.addr] = ep
	n.epList = append(n.epList, ep)
	n.mu.Unlock()
	go ep.pump()
	return ep
}

func (n *SimNet) lookup(addr string) *endpoint {
	n.mu.Lock()
	defer n.mu.Unlock()
	return n.eps[addr]
}

func (ep *endpoint) pump() {
	quit := ep.net.sim.quit
	for {
		select {
		case <-ep.pumpSig:
		case <-quit:
			return
		}
		for {
			ep.mu.Lock()
			var p *Packet
			var c net.Conn
			if len(ep.inboxP) > 0 {
				p = ep.inboxP[0]
				ep.inboxP = ep.inboxP[1:]
			} else if len(ep.inboxS) > 0 {
				c = ep.inboxS[0]
				ep.inboxS = ep.inboxS[1:]
			}
			ep.mu.Unlock()
			if p == nil && c == nil {
				break
			}
			if p != nil {
				select {
				case ep.packetCh <- p:
				case <-ep.closedCh:
				case <-quit:
					return
				}
			} else {
				select {
				case ep.streamCh <- c:
				case <-ep.closedCh:
					_ = c.Close()
				case <-quit:
					return
				}
			}
		}
	}
}

func (ep *endpoint) signal() {
	select {
	case ep.pumpSig <- struct{}{}:
	default:
	}
}

// deliverPacket is called on the driver goroutine.
func (ep *endpoint) deliverPacket(buf []byte, from net.Addr) {
	ep.mu.Lock()
	if ep.closed || ep.down || ep.detached {
		ep.mu.Unlock()
		return
	}
	ep.inboxP = append(ep.inboxP, &Packet{Buf: buf, From: from, Timestamp: time.Now()})
	ep.mu.Unlock()
	ep.signal()
}

func (ep *endpoint) deliverStream(c net.Conn) {
	ep.mu.Lock()
	if ep.closed || ep.down || ep.detached {
		ep.mu.Unlock()
		_ = c.Close()
		return
	}
	ep.inboxS = append(ep.inboxS, c)
	ep.mu.Unlock()
	ep.signal()
}

func (ep *endpoint) udpAddr() net.Addr { return &net.UDPAddr{IP: ep.ip, Port: ep.port} }

// ---- Transport interface

func (ep *endpoint) FinalAdvertiseAddr(string, int) (net.IP, int, error) { return ep.ip, ep.port, nil }

func (ep *endpoint) WriteTo(b []byte, addr string) (time.Time, error) {
	return ep.WriteToAddress(b, Address{Addr: addr})
}

func (ep *endpoint) WriteToAddress(b []byte, a Address) (time.Time, error) {
	n := ep.net
	if !ep.yieldOff {
		n.sim.yield("write", ep.name)
	}
	buf := append([]byte(nil), b...)
	ep.mu.Lock()
	if ep.failTo[a.Addr] {
		// the local stack refuses the send (network unreachable, EPERM, ...): an error, not a silent loss
		ep.mu.Unlock()
		n.fault("udp_send_error")
		return time.Time{}, &net.OpError{Op: "write", Net: "udp", Err: errors.New("sim: network is unreachable")}
	}
	seq := ep.sendSeq
	ep.sendSeq++
	closed := ep.closed
	down := ep.down
	if closed {
		ep.WritesAfterShut++
	}
	ep.mu.Unlock()
	n.record(&tapRec{T: n.sim.Now(), From: ep.name, To: a.Addr, Buf: buf, Accepted: !closed})
	if closed {
		return time.Time{}, &net.OpError{Op: "write", Net: "udp", Err: errSimClosed}
	}
	now := time.Now()
	if down {
		return now, nil
	}
	n.route(ep, seq, a.Addr, buf)
	return now, nil
}

func (n *SimNet) record(r *tapRec) {
	if !n.tapOn && n.tapFn == nil {
		return
	}
	n.mu.Lock()
	r.Seq = len(n.tap)
	if n.tapOn && len(n.tap) < n.tapCap {
		n.tap = append(n.tap, *r)
	}
	fn := n.tapFn
	n.mu.Unlock()
	if fn != nil {
		fn(r)
	}
}

// route decides the fate of packet #seq of sender ep and schedules deliveries.
func (n *SimNet) route(ep *endpoint, seq uint64, addr string, buf []byte) {
	var targets []*endpoint
	if d := n.lookup(addr); d != nil {
		targets = append(targets, d)
	}
	if n.crossDeliver != nil {
		targets = append(targets, n.crossDeliver(ep, buf)...)
	}
	for ti, dest := range targets {
		h := hash64(n.seed, uint64(ep.idx)+1, seq, uint64(ti))
		r := newRng(h)
		if dest.down || dest.detached {
			n.fault("to_down")
			continue
		}
		if n.blocked(ep, dest, false) {
			n.fault("partition_drop")
			continue
		}
		if n.pktFilter != nil && n.pktFilter(ep, dest, buf) {
			n.fault("filter_drop")
			continue
		}
		act := n.faultsActive()
		if act && n.plan.Loss > 0 && r.chance(n.plan.Loss) {
			n.fault("loss")
			continue
		}
		delay := n.plan.MinDelay
		if n.plan.MaxDelay > n.plan.MinDelay && (act || n.plan.Until == 0) {
			delay += r.i64n(n.plan.MaxDelay - n.plan.MinDelay)
		}
		if act && n.plan.HeavyTail > 0 && r.chance(n.plan.HeavyTail) {
			delay += r.i64n(20*n.plan.MaxDelay + 1)
			n.fault("heavy_delay")
		}
		delay += dest.slowNs
		delay += 1 + int64(h%997) // ns jitter: no two deliveries share an instant
		from := ep.udpAddr()
		d := dest
		b := buf
		n.sim.After(time.Duration(delay), uint64(ep.idx)+1, seq*4+uint64(ti)*2, "pkt "+ep.name+">"+d.name, func() { d.deliverPacket(b, from) })
		if act && n.plan.Dup > 0 && r.chance(n.plan.Dup) {
			n.fault("dup")
			d2 := delay + 1 + r.i64n(n.plan.MaxDelay+1000)
			b2 := append([]byte(nil), buf...)
			n.sim.After(time.Duration(d2), uint64(ep.idx)+1, seq*4+uint64(ti)*2+1, "dup "+ep.name+">"+d.name, func() { d.deliverPacket(b2, from) })
		}
	}
}

func (ep *endpoint) PacketCh() <-chan *Packet {
	// called by the node's packet listener goroutine on every loop iteration
	if cs := curSim.Load(); cs != nil {
		cs.bindGoroutine(ep.name)
	}
	return ep.packetCh
}
func (ep *endpoint) StreamCh() <-chan net.Conn { return ep.streamCh }

func (ep *endpoint) DialTimeout(addr string, timeout time.Duration) (net.Conn, error) {
	return ep.DialAddressTimeout(Address{Addr: addr}, timeout)
}

func (ep *endpoint) DialAddressTimeout(a Address, timeout time.Duration) (net.Conn, error) {
	n := ep.net
	if !ep.yieldOff {
		n.sim.yield("dial", ep.name)
	}
	ep.mu.Lock()
	seq := ep.dialSeq
	ep.dialSeq++
	closed := ep.closed
	if closed {
		ep.DialsAfterShut++
	}
	down := ep.down
	ep.mu.Unlock()
	if closed {
		return nil, &net.OpError{Op: "dial", Net: "tcp", Err: errSimClosed}
	}
	dest := n.lookup(a.Addr)
	h := hash64(n.seed, 0x7463, uint64(ep.idx)+1, seq)
	r := newRng(h)
	unreachable := down || dest == nil || dest.down || dest.detached || n.blocked(ep, dest, true)
	destClosed := false
	if dest != nil {
		dest.mu.Lock()
		destClosed = dest.closed
		dest.mu.Unlock()
	}
	if !unreachable && destClosed {
		n.fault("dial_refused_closed")
		return nil, &net.OpError{Op: "dial", Net: "tcp", Err: errSimRefused}
	}
	if unreachable {
		// half of the time refuse at once, otherwise hang until the timeout
		if r.chance(0.5) {
			n.fault("dial_refused")
			return nil, &net.OpError{Op: "dial", Net: "tcp", Err: errSimRefused}
		}
		n.fault("dial_timeout")
		if timeout > 0 {
			select {
			case <-time.After(timeout):
			case <-n.sim.quit:
			}
		}
		return nil, &net.OpError{Op: "dial", Net: "tcp", Err: &timeoutErr{"dial"}}
	}
	act := n.faultsActive()
	if act && n.plan.DialRefuse > 0 && r.chance(n.plan.DialRefuse) {
		n.fault("dial_refused_fault")
		return nil, &net.OpError{Op: "dial", Net: "tcp", Err: errSimRefused}
	}
	cl, sv := n.newConnPair(ep, dest, r, act)
	d := dest
	delay := time.Duration(1 + n.plan.MinDelay + int64(h%991))
	n.sim.After(delay, uint64(ep.idx)+1, 1<<40|seq, "conn "+ep.name+">"+d.name, func() { d.deliverStream(sv) })
	return cl, nil
}

func (ep *endpoint) Shutdown() error {
	if f := ep.onShutdown; f != nil {
		ep.onShutdown = nil
		f() // scenario hook: runs while the library is inside transport.Shutdown()
	}
	ep.mu.Lock()
	ep.ShutdownCalls++
	if !ep.closed {
		ep.closed = true
		close(ep.closedCh)
	}
	ep.mu.Unlock()
	return nil
}

// ---------------------------------------------------------------- conns

type pipeHalf struct {
	mu       sync.Mutex
	buf      []byte
	wclosed  bool
	reset    bool
	rclosed  bool
	sig      chan struct{}
	written  int64
	consumed int64
	cutAt    int64 // -1: none
	cutReset bool
	stall    bool
	wblock     bool  // writes block once blockAfter bytes have been written (peer stopped reading)
	blockAfter int64
	fragSeed uint64
	frag     bool
	reads    uint64
}

func newHalf() *pipeHalf { return &pipeHalf{sig: make(chan struct{}, 1), cutAt: -1} }

func (h *pipeHalf) wake() {
	select {
	case h.sig <- struct{}{}:
	default:
	}
}

type simConn struct {
	net      *SimNet
	id       int
	server   bool
	local    *endpoint
	remote   *endpoint
	in, out  *pipeHalf
	mu       sync.Mutex
	rdl, wdl time.Time
	closed   bool
	closedCh chan struct{}
	openedAt time.Duration
	closedAt time.Duration
	delayNs  int64
	wseq     uint64
	peer     *simConn
}

func (n *SimNet) newConnPair(cl, sv *endpoint, r *rng, faultsActive bool) (*simConn, *simConn) {
	c2s, s2c := newHalf(), newHalf()
	if n.plan.StreamFrag {
		c2s.frag, s2c.frag = true, true
		c2s.fragSeed, s2c.fragSeed = r.u64(), r.u64()
	}
	if faultsActive && n.plan.StreamCut > 0 && r.chance(n.plan.StreamCut) {
		h := c2s
		if r.chance(0.5) {
			h = s2c
		}
		h.cutAt = r.i64n(600)
		h.cutReset = r.chance(0.3)
		n.fault("stream_cut_armed")
	}
	if faultsActive && n.plan.StreamStall > 0 && r.chance(n.plan.StreamStall) {
		if r.chance(0.5) {
			c2s.stall = true
		} else {
			s2c.stall = true
		}
		n.fault("stream_stall_armed")
	}
	if faultsActive && n.plan.StreamBlock > 0 && r.chance(n.plan.StreamBlock) {
		h := c2s
		if r.chance(0.5) {
			h = s2c
		}
		h.wblock = true
		h.blockAfter = r.i64n(300)
		n.fault("stream_block_armed")
	}
	n.mu.Lock()
	n.connSeq++
	id := n.connSeq
	if n.connFault != nil {
		a, b, rst := n.connFault(id, cl, sv)
		if a >= 0 {
			c2s.cutAt, c2s.cutReset = a, rst
		}
		if b >= 0 {
			s2c.cutAt, s2c.cutReset = b, rst
		}
	}
	now := n.sim.Now()
	a := &simConn{net: n, id: id, local: cl, remote: sv, in: s2c, out: c2s, closedCh: make(chan struct{}), openedAt: now}
	b := &simConn{net: n, id: id, server: true, local: sv, remote: cl, in: c2s, out: s2c, closedCh: make(chan struct{}), openedAt: now}
	a.peer, b.peer = b, a
	if n.plan.StreamDelay > 0 {
		a.delayNs = 1 + r.i64n(n.plan.StreamDelay)
		b.delayNs = 1 + r.i64n(n.plan.StreamDelay)
	}
	n.conns = append(n.conns, a, b)
	n.mu.Unlock()
	return a, b
}

func (c *simConn) Read(p []byte) (int, error) {
	if len(p) == 0 {
		return 0, nil
	}
	c.mu.Lock()
	dl := c.rdl
	c.mu.Unlock()
	var timer *time.Timer
	var tch <-chan time.Time
	h := c.in
	for {
		h.mu.Lock()
		if h.rclosed {
			h.mu.Unlock()
			return 0, io.ErrClosedPipe
		}
		if len(h.buf) > 0 {
			n := len(p)
			if n > len(h.buf) {
				n = len(h.buf)
			}
			if h.frag && n > 1 {
				h.reads++
				lim := 1 + int(hash64(h.fragSeed, h.reads)%uint64(n))
				if hash64(h.fragSeed, h.reads, 7)%4 == 0 {
					lim = 1 + int(hash64(h.fragSeed, h.reads, 9)%3)
				}
				if lim < n {
					n = lim
				}
			}
			copy(p, h.buf[:n])
			h.buf = h.buf[n:]
			h.consumed += int64(n)
			if len(h.buf) > 0 {
				h.wake()
			}
			h.mu.Unlock()
			if timer != nil {
				timer.Stop()
			}
			return n, nil
		}
		if h.reset {
			h.mu.Unlock()
			return 0, &net.OpError{Op: "read", Net: "tcp", Err: errSimReset}
		}
		if h.wclosed {
			h.mu.Unlock()
			return 0, io.EOF
		}
		h.mu.Unlock()
		if !dl.IsZero() && timer == nil {
			d := time.Until(dl)
			if d <= 0 {
				return 0, &net.OpError{Op: "read", Net: "tcp", Err: &timeoutErr{"read"}}
			}
			timer = time.NewTimer(d)
			tch = timer.C
		}
		select {
		case <-h.sig:
		case <-tch:
			return 0, &net.OpError{Op: "read", Net: "tcp", Err: &timeoutErr{"read"}}
		case <-c.closedCh:
			return 0, io.ErrClosedPipe
		case <-c.net.sim.quit:
			return 0, io.ErrClosedPipe
		}
	}
}

func (c *simConn) Write(p []byte) (int, error) {
	c.mu.Lock()
	closed := c.closed
	dl := c.wdl
	c.wseq++
	wseq := c.wseq
	c.mu.Unlock()
	if closed {
		return 0, io.ErrClosedPipe
	}
	if !dl.IsZero() && time.Until(dl) <= 0 {
		return 0, &net.OpError{Op: "write", Net: "tcp", Err: &timeoutErr{"write"}}
	}
	n := c.net
	n.record(&tapRec{T: n.sim.Now(), From: c.local.name, To: c.remote.addr, Stream: true, Conn: c.id, Buf: append([]byte(nil), p...), Accepted: true})
	h := c.out
	h.mu.Lock()
	if h.rclosed {
		h.mu.Unlock()
		return 0, &net.OpError{Op: "write", Net: "tcp", Err: errors.New("sim: broken pipe")}
	}
	if h.wblock && !dl.IsZero() && h.written+int64(len(p)) > h.blockAfter {
		// (a write without a deadline - SendReliable sets none - is let through: it would wait for
		// the peer for ever, which is the caller's contract with the network, not a lifecycle defect)
		// send buffer full, the peer does not read: block until the deadline or until closed.
		// As on a real socket the part that still fitted has been sent: the write reports partial
		// progress together with the timeout, and the peer resumes reading afterwards (a caller that
		// carries on with the connection gets its later writes through).
		part := h.blockAfter - h.written
		if part < 0 {
			part = 0
		}
		if part > int64(len(p)) {
			part = int64(len(p))
		}
		h.written += part
		h.mu.Unlock()
		if part > 0 {
			c.push(h, append([]byte(nil), p[:part]...), wseq, false)
			n.fault("stream_write_partial")
		}
		n.fault("stream_write_blocked")
		var tc <-chan time.Time
		if !dl.IsZero() {
			t := time.NewTimer(time.Until(dl))
			defer t.Stop()
			tc = t.C
		}
		select {
		case <-tc:
			h.mu.Lock()
			h.wblock = false
			h.mu.Unlock()
			return int(part), &net.OpError{Op: "write", Net: "tcp", Err: &timeoutErr{"write"}}
		case <-c.closedCh:
			return int(part), io.ErrClosedPipe
		}
	}
	data := append([]byte(nil), p...)
	if h.cutAt >= 0 && h.written+int64(len(data)) > h.cutAt {
		keep := h.cutAt - h.written
		if keep < 0 {
			keep = 0
		}
		data = data[:keep]
		h.written += int64(len(p))
		fire := !h.wclosed
		h.mu.Unlock()
		if fire {
			n.fault("stream_cut")
		}
		c.push(h, data, wseq, true)
		return len(p), nil
	}
	h.written += int64(len(p))
	stall := h.stall
	h.mu.Unlock()
	if stall {
		n.fault("stream_stalled_write")
		return len(p), nil
	}
	c.push(h, data, wseq, false)
	return len(p), nil
}

func (c *simConn) push(h *pipeHalf, data []byte, wseq uint64, cut bool) {
	apply := func() {
		h.mu.Lock()
		if !h.wclosed {
			h.buf = append(h.buf, data...)
			if cut {
				h.wclosed = true
				if h.cutReset {
					h.reset = true
					h.buf = nil
				}
			}
		}
		h.mu.Unlock()
		h.wake()
	}
	if c.delayNs > 0 {
		side := uint64(0)
		if c.server {
			side = 1
		}
		c.net.sim.After(time.Duration(c.delayNs), 1<<50|uint64(c.id)*2|side, wseq, fmt.Sprintf("seg c%d", c.id), apply)
		return
	}
	apply()
}

func (c *simConn) Close() error {
	c.mu.Lock()
	if c.closed {
		c.mu.Unlock()
		return nil
	}
	c.closed = true
	c.closedAt = c.net.sim.Now()
	close(c.closedCh)
	delay := c.delayNs
	c.wseq++
	wseq := c.wseq
	c.mu.Unlock()
	c.in.mu.Lock()
	c.in.rclosed = true
	c.in.mu.Unlock()
	fin := func() {
		c.out.mu.Lock()
		c.out.wclosed = true
		c.out.mu.Unlock()
		c.out.wake()
	}
	if delay > 0 {
		side := uint64(0)
		if c.server {
			side = 1
		}
		c.net.sim.After(time.Duration(delay), 1<<50|uint64(c.id)*2|side, wseq, fmt.Sprintf("fin c%d", c.id), fin)
	} else {
		fin()
	}
	return nil
}

func (c *simConn) isClosed() bool {
	c.mu.Lock()
	defer c.mu.Unlock()
	return c.closed
}

func (c *simConn) LocalAddr() net.Addr  { return &net.TCPAddr{IP: c.local.ip, Port: c.local.port} }
func (c *simConn) RemoteAddr() net.Addr { return &net.TCPAddr{IP: c.remote.ip, Port: 30000 + c.id%30000} }
func (c *simConn) SetDeadline(t time.Time) error {
	c.mu.Lock()
	c.rdl, c.wdl = t, t
	c.mu.Unlock()
	return nil
}
func (c *simConn) SetReadDeadline(t time.Time) error {
	c.mu.Lock()
	c.rdl = t
	c.mu.Unlock()
	return nil
}
func (c *simConn) SetWriteDeadline(t time.Time) error {
	c.mu.Lock()
	c.wdl = t
	c.mu.Unlock()
	return nil
}

// openServerConns lists server-side conns of ep that are not yet closed.
func (n *SimNet) openConns(ep *endpoint, serverOnly bool) []*simConn {
	n.mu.Lock()
	defer n.mu.Unlock()
	var out []*simConn
	for _, c := range n.conns {
		if c.local == ep && (!serverOnly || c.server) && !c.isClosed() {
			out = append(out, c)
		}
	}
	return out
}

// closeAll force-closes every connection (end of run).
func (n *SimNet) closeAll() {
	n.mu.Lock()
	cs := append([]*simConn(nil), n.conns...)
	n.mu.Unlock()
	for _, c := range cs {
		_ = c.Close()
	}
}
