package memberlist

// C03 — a crashed member is removed by every live node within a bounded time.

import (
	"fmt"
	"math"
	"net"
	"time"
)

func init() {
	register(&Scenario{Name: "C03", Gen: genC03, Exec: execC03})
}

// bounds computed from the documented meaning of the configuration (not from
// the library's helpers).
func tProbe(cp CfgPlan) time.Duration {
	return time.Duration(cp.AwarenessMax) * (ms(cp.ProbeIntervalMs) + 300*time.Nanosecond)
}
func sMin(cp CfgPlan, n int) time.Duration {
	scale := math.Max(1.0, math.Log10(math.Max(1.0, float64(n))))
	return time.Duration(float64(cp.SuspicionMult) * scale * float64(ms(cp.ProbeIntervalMs)+300*time.Nanosecond))
}
func sMax(cp CfgPlan, n int) time.Duration {
	return time.Duration(cp.SuspicionMaxMult) * sMin(cp, n)
}
func detectBound(cp CfgPlan, n int) time.Duration {
	pi := ms(cp.ProbeIntervalMs) + 300*time.Nanosecond
	return time.Duration(2*n)*(tProbe(cp)+pi) + tProbe(cp) + sMax(cp, n) + 10*time.Millisecond
}

func genC03(c *Ctx) *Plan {
	r := c.R
	p := &Plan{N: r.rangeI(3, 8), Cfg: genCfg(r), P: map[string]int64{}}
	n := p.N
	// staggered creates and joins
	t := int64(1000)
	for i := 0; i < n; i++ {
		t += 1_000_000 + r.i64n(300_000_000)
		p.Ops = append(p.Ops, Op{At: t, Kind: "create", Node: i})
	}
	joinEnd := t
	for i := 1; i < n; i++ {
		jt := t + 1_000_000 + r.i64n(2_000_000_000)
		tgt := int64(r.intn(i))
		if r.chance(0.7) {
			tgt = 0
		}
		p.Ops = append(p.Ops, Op{At: jt, Kind: "join", Node: i, L: []int64{tgt}})
		if jt > joinEnd {
			joinEnd = jt
		}
	}
	victim := r.intn(n)
	p.P["victim"] = int64(victim)
	// crash instant: biased to land inside joins / right after learning
	var ct int64
	switch r.intn(4) {
	case 0:
		ct = t + r.i64n(joinEnd-t+1)
	case 1:
		ct = joinEnd + r.i64n(50_000_000)
	default:
		ct = joinEnd + r.i64n(int64(4*ms(p.Cfg.PushPullMs)))
	}
	sd := int64(0)
	if r.chance(0.5) {
		sd = 1
	}
	p.Ops = append(p.Ops, Op{At: ct, Kind: "crash", Node: victim, A: sd})
	p.P["crash_at"] = ct
	// survivors keep suffering faults
	if r.chance(0.7) {
		p.Net.Loss = []float64{0.02, 0.05, 0.1, 0.2}[r.intn(4)]
	}
	if r.chance(0.3) {
		p.Net.Dup = 0.05
	}
	p.Net.MinDelay = 10_000
	p.Net.MaxDelay = int64(ms(p.Cfg.ProbeTimeoutMs)) / int64(r.pick(4, 8, 20))
	if r.chance(0.3) {
		p.Net.HeavyTail = 0.02
	}
	if r.chance(0.3) {
		p.Net.StreamCut = 0.2
	}
	if r.chance(0.3) && n >= 4 {
		// a partition among survivors for a while
		a := []int{}
		for i := 0; i < n; i++ {
			if i != victim && r.chance(0.4) {
				a = append(a, i)
			}
		}
		if len(a) > 0 {
			from := ct + r.i64n(2_000_000_000)
			p.Net.Parts = append(p.Net.Parts, Partition{From: from, To: from + r.i64n(5_000_000_000), A: a, UDP: true, TCP: r.chance(0.5), OneWay: r.chance(0.3)})
		}
	}
	p.P["freeze_us"] = int64(r.pick(0, 0, 100, 2000))
	p.YieldOff = genYieldOff(r)
	if r.chance(0.5) {
		// a flapping victim: falsely suspected (and refuting) shortly before it really dies; old
		// accusations from that episode - duplicated or delayed packets - still arrive at survivors
		// while they run their own suspicion of the dead victim. They are stale and must not matter.
		p.Ops = append(p.Ops, Op{At: ct - 200_000_000 - r.i64n(1_500_000_000), Kind: "forge", Node: victim, S: "suspect", C: int64((victim + 1) % n)})
		for i := 0; i < r.rangeI(2, 6); i++ {
			x := (victim + 1 + r.intn(n-1)) % n
			from := (victim + 1 + r.intn(n-1)) % n
			p.Ops = append(p.Ops, Op{At: ct + r.i64n(int64(detectBound(p.Cfg, n))/2+1), Kind: "forge", Node: x, S: []string{"dead", "dead", "suspect"}[r.intn(3)], A: int64(r.pick(1, 1, 2)), C: int64(from)})
		}
		p.P["flap"] = 1
	}
	p.Cfg.AliveDel = r.chance(0.5) // an accepting AliveDelegate: a preemption point if it is ever called without the node lock
	return p
}

type c03mon struct {
	victim  int
	bound   time.Duration
	since   map[int]time.Duration // survivor idx -> t0
	lastInc map[int]uint32
	removed map[int]time.Duration
	maxLat  time.Duration
	tracked int
}

func (m *c03mon) step(cx *clusterRun) {
	ct, crashed := cx.crashT[m.victim]
	if !crashed {
		return
	}
	now := cx.c.Sim.Now()
	v := cx.node(m.victim)
	for _, s := range cx.cl.nodes {
		if s.idx == m.victim || !s.running() || s.m == nil {
			continue
		}
		rv := s.view(v.name)
		listed := rv.Present && (rv.State == StateAlive || rv.State == StateSuspect)
		if !listed {
			if t0, ok := m.since[s.idx]; ok {
				lat := now - t0
				if lat > m.maxLat {
					m.maxLat = lat
				}
				delete(m.since, s.idx)
				m.removed[s.idx] = now
				// a leave event must have been delivered for it
				found := false
				s.mu.Lock()
				for i := len(s.events) - 1; i >= 0; i-- {
					e := s.events[i]
					if e.Name == v.name {
						found = e.Kind == "leave"
						break
					}
				}
				s.mu.Unlock()
				if !found {
					cx.c.Violate("no-leave-event", "", s.name, "%s dropped crashed %s from Members() without a leave event", s.name, v.name)
				}
			}
			continue
		}
		t0, ok := m.since[s.idx]
		if !ok {
			t0 = now
			if t0 < ct {
				t0 = ct
			}
			m.since[s.idx] = t0
			m.lastInc[s.idx] = rv.Inc
			m.tracked++
		} else if rv.Inc > m.lastInc[s.idx] {
			// an alive with a higher incarnation (issued before the crash, still
			// in flight) was accepted: the detection clock restarts here.
			m.lastInc[s.idx] = rv.Inc
			m.since[s.idx] = now
			t0 = now
			cx.c.Reach("late_alive_restart_clock")
		}
		if now-t0 > m.bound {
			cx.c.Violate("detection-bound", "", s.name, "%s still lists crashed %s %v after t0 (bound %v); record %s, health=%d", s.name, v.name, now-t0, m.bound, rv, s.m.GetHealthScore())
			delete(m.since, s.idx)
			m.since[s.idx] = now + 1000*time.Hour // report once
		}
	}
}

func (m *c03mon) finish(cx *clusterRun) {}

// probeSched checks the probe-schedule sub-claim from the wire tap. Only pings
// whose cause is a probe tick are judged, so it is active in runs without
// indirect checks (then every ping on the wire is a probe ping).
type probeSched struct {
	c     *Ctx
	cx    *clusterRun
	hist  map[string][]string // prober -> targets probed in the current membership epoch
	epoch map[string]string
	pings int64
	bad   bool
	// membership generation per prober, advanced at every scheduler step at which the set of
	// peers it holds as alive/suspect differs from the previous step: a peer that died and was
	// revived between two probes leaves the set sampled at the probe instants unchanged, but the
	// probe schedule legitimately skipped it while it was dead
	liveNow map[string]string
	gen     map[string]int
	pass    map[*Memberlist]*probePass
}

// probePass tracks one traversal of a prober's member list (from one wrap of its cursor to the
// next). "Once per pass while membership is stable": in a pass during which the prober's live set
// (and the order of its list) did not change - from the last probe of the previous pass to the
// first probe of the next one - every live peer is probed exactly once.
type probePass struct {
	lastIdx int
	lastEp  string
	prevEp  string // epoch at the last probe of the previous pass ("" = there was none)
	ep0     string
	order   string
	live    []string
	stable  bool
	seen    map[string]int
}

func (ps *probeSched) step(cx *clusterRun) {
	if ps.liveNow == nil {
		ps.liveNow = map[string]string{}
		ps.gen = map[string]int{}
	}
	for _, n := range cx.cl.nodes {
		if n.m == nil {
			continue
		}
		var live []string
		n.m.nodeLock.RLock()
		for name, x := range n.m.nodeMap {
			if name != n.name && !x.DeadOrLeft() {
				live = append(live, name)
			}
		}
		n.m.nodeLock.RUnlock()
		sortStrs(live)
		l := joinStrs(live)
		if prev, ok := ps.liveNow[n.name]; !ok || prev != l {
			ps.liveNow[n.name] = l
			ps.gen[n.name]++
		}
	}
}
func (ps *probeSched) finish(cx *clusterRun) {}

func (ps *probeSched) onTap(r *tapRec) {
	if r.Stream || ps.bad {
		return
	}
	var S *SimNode
	for _, n := range ps.cx.cl.nodes {
		if n.name == r.From {
			S = n
		}
	}
	if S == nil || S.m == nil || S.conf == nil {
		return
	}
	msgs, err := decodePacket(S.conf, r.Buf)
	if err != nil {
		return
	}
	for _, wm := range msgs {
		if wm.Type != pingMsg {
			continue
		}
		var pg ping
		if decode(wm.Body, &pg) != nil {
			continue
		}
		ps.pings++
		if pg.Node == S.name {
			ps.bad = true
			ps.c.Violate("probe-self", "", S.name, "%s sent a probe ping to itself", S.name)
			return
		}
		S.m.nodeLock.RLock()
		st, ok := S.m.nodeMap[pg.Node]
		var live []string
		for name, x := range S.m.nodeMap {
			if name != S.name && !x.DeadOrLeft() {
				live = append(live, name)
			}
		}
		// the decision to probe is taken at the tick; the record may legitimately die
		// between the tick and the send. A record that has been dead for longer than
		// one awareness-scaled probe interval was dead at the tick as well.
		deadTarget := ok && st.DeadOrLeft() && time.Since(st.StateChange) > tProbe(ps.c.Plan.Cfg)+time.Millisecond
		S.m.nodeLock.RUnlock()
		if deadTarget {
			ps.bad = true
			ps.c.Violate("probe-dead-peer", "", S.name, "%s probed %s which its own table records as dead/left", S.name, pg.Node)
			return
		}
		sortStrs(live)
		ep := fmt.Sprintf("%s#%d", joinStrs(live), ps.gen[S.name])
		if ps.epoch[S.name] != ep {
			ps.epoch[S.name] = ep
			ps.hist[S.name] = nil
		}
		isLive := false
		for _, x := range live {
			if x == pg.Node {
				isLive = true
			}
		}
		ps.passCheck(S, pg.Node, ep, live, isLive)
		if ps.bad {
			return
		}
		if !isLive {
			continue // a probe decided just before its target died: not part of the stable-set window
		}
		h := append(ps.hist[S.name], pg.Node)
		ps.hist[S.name] = h
		m := len(live)
		if m >= 2 && len(h) >= 2*m-1 {
			win := h[len(h)-(2*m-1):]
			seen := map[string]bool{}
			for _, x := range win {
				seen[x] = true
			}
			for _, x := range live {
				if !seen[x] {
					ps.bad = true
					ps.c.Violate("probe-schedule-starves-peer", "", S.name, "%s: membership unchanged over its last %d probes %v, yet live peer %s was not probed in them (m=%d live peers)", S.name, 2*m-1, win, x, m)
					return
				}
			}
			ps.c.Reach("probe_window_checked")
		}
	}
}

// passCheck runs on the prober's own goroutine (the tap is called from its transport write), so
// reading probeIndex is race-free: only probe() writes it.
func (ps *probeSched) passCheck(S *SimNode, target, ep string, live []string, isLive bool) {
	if ps.pass == nil {
		ps.pass = map[*Memberlist]*probePass{}
	}
	idx := S.m.probeIndex
	S.m.nodeLock.RLock()
	order := ""
	for _, x := range S.m.nodes {
		order += x.Name + ","
	}
	S.m.nodeLock.RUnlock()
	st := ps.pass[S.m]
	if st == nil || idx <= st.lastIdx {
		if st != nil && st.stable && st.prevEp == st.ep0 && ep == st.ep0 && len(st.live) >= 1 {
			for _, x := range st.live {
				if st.seen[x] != 1 {
					ps.bad = true
					ps.c.Violate("probe-pass-missed-peer", "", S.name, "%s: live set %v and list order unchanged over a whole pass of its probe cursor, yet peer %s was probed %d times in it (probed: %v)", S.name, st.live, x, st.seen[x], st.seen)
					return
				}
			}
			ps.c.Reach("probe_pass_exactly_once_checked")
		}
		prev := ""
		if st != nil {
			prev = st.lastEp
		}
		st = &probePass{prevEp: prev, ep0: ep, order: order, live: append([]string(nil), live...), stable: true, seen: map[string]int{}}
		ps.pass[S.m] = st
	}
	if ep != st.ep0 || order != st.order || !isLive {
		st.stable = false
	}
	st.lastIdx, st.lastEp = idx, ep
	if st.stable {
		st.seen[target]++
		if st.seen[target] > 1 {
			ps.bad = true
			ps.c.Violate("probe-pass-duplicate", "", S.name, "%s probed %s twice within one pass over an unchanged member list (live %v)", S.name, target, st.live)
		}
	}
}

func execC03(c *Ctx) {
	p := c.Plan
	victim := int(p.param("victim", 0))
	mon := &c03mon{victim: victim, bound: detectBound(p.Cfg, p.N), since: map[int]time.Duration{}, lastInc: map[int]uint32{}, removed: map[int]time.Duration{}}
	hm := &healthMon{}
	em := newEventMon()
	cx := startClusterRun(c, mon, hm, em, newSelfMon())
	if fz := p.param("freeze_us", 0); fz > 0 {
		c.Sim.freezeSites = map[string]bool{"alive": true, "suspect": true, "dead": true, "conn": true, "handoff": true}
		c.Sim.freezeProb = 0.05
		c.Sim.freezeMax = time.Duration(fz) * time.Microsecond
	}
	ps := &probeSched{c: c, cx: cx, hist: map[string][]string{}, epoch: map[string]string{}}
	if p.Cfg.IndirectChecks == 0 {
		cx.cl.net.tapFn = ps.onTap
		cx.mons = append(cx.mons, ps)
	}
	cx.customOp = func(rec *opRec) bool {
		op := rec.Op
		if op.Kind != "forge" {
			return false
		}
		V := cx.node(victim)
		X, from := cx.node(op.Node), cx.node(int(op.C))
		if V == nil || V.m == nil || X == nil || X.m == nil || !X.running() || from == nil {
			return true
		}
		cur := int64(V.m.incarnation.Load())
		inc := cur - op.A // op.A = 0 for the accusation the victim refutes, >= 1 for stale leftovers
		if inc < 1 {
			return true
		}
		var raw []byte
		if op.S == "suspect" {
			raw = mustEncode(suspectMsg, &suspect{Incarnation: uint32(inc), Node: V.name, From: from.name})
		} else {
			raw = mustEncode(deadMsg, &dead{Incarnation: uint32(inc), Node: V.name, From: from.name})
		}
		X.ep.deliverPacket(wrapPacketFor(X, raw, false, false), &net.UDPAddr{IP: from.ip, Port: from.port})
		if op.A >= 1 {
			c.Reach("stale_accusation_delivered_during_detection")
		}
		return true
	}
	crashAt := time.Duration(p.param("crash_at", 0))
	end := crashAt + mon.bound + 2*time.Second
	c.Sim.RunUntil(end, func() bool {
		if c.Failed() {
			return true
		}
		// stop early once every tracked survivor dropped the victim and a grace
		// period passed (late alives could still re-add it)
		if _, ok := cx.crashT[victim]; !ok {
			return false
		}
		return false
	})
	if _, ok := cx.crashT[victim]; ok && mon.tracked > 0 && len(mon.removed) > 0 {
		c.Res.Nontrivial = true
	}
	c.Res.Faults["goroutine_descheduled"] += c.Sim.frozen
	c.Stat("probe_pings_judged", ps.pings)
	c.Stat("max_detect_ms", int64(mon.maxLat/time.Millisecond))
	c.Stat("bound_ms", int64(mon.bound/time.Millisecond))
	c.Stat("tracked", int64(mon.tracked))
	c.Stat("removed", int64(len(mon.removed)))
	if c.wantSample || true {
		c.Res.Sample = map[string]any{"n": p.N, "victim": victim, "crash_at_ms": crashAt / time.Millisecond, "bound_ms": mon.bound / time.Millisecond, "max_detect_ms": mon.maxLat / time.Millisecond, "loss": p.Net.Loss, "cfg": fmt.Sprintf("%+v", p.Cfg)}
	}
	cx.finish()
}
