package memberlist

// Harness-side decoding of packets emitted by a simulated node (used by oracles
// only). Uses the sender's own configuration.

import (
	"encoding/binary"
	"fmt"
)

type wireMsg struct {
	Type messageType
	Body []byte // without the type byte
}

// decodePacket undoes label, encryption, CRC and (recursively) compound and
// compression of a packet produced by a node configured like conf.
func decodePacket(conf *Config, buf []byte) ([]wireMsg, error) {
	buf, label, err := RemoveLabelHeaderFromPacket(buf)
	if err != nil {
		return nil, err
	}
	if label != conf.Label {
		return nil, fmt.Errorf("label %q != %q", label, conf.Label)
	}
	if conf.EncryptionEnabled() && conf.GossipVerifyOutgoing {
		plain, err := decryptPayload(conf.Keyring.GetKeys(), append([]byte(nil), buf...), []byte(label))
		if err != nil {
			return nil, fmt.Errorf("decrypt: %w", err)
		}
		buf = plain
	}
	if len(buf) >= 5 && messageType(buf[0]) == hasCrcMsg {
		if crc32sum(buf[5:]) != binary.BigEndian.Uint32(buf[1:5]) {
			return nil, fmt.Errorf("bad crc")
		}
		buf = buf[5:]
	}
	var out []wireMsg
	var walk func(b []byte, depth int) error
	walk = func(b []byte, depth int) error {
		if len(b) < 1 {
			return fmt.Errorf("empty message")
		}
		if depth > 8 {
			return fmt.Errorf("too deep")
		}
		t := messageType(b[0])
		switch t {
		case compoundMsg:
			_, parts, err := decodeCompoundMessage(b[1:])
			if err != nil {
				return err
			}
			for _, p := range parts {
				if err := walk(p, depth+1); err != nil {
					return err
				}
			}
		case compressMsg:
			pl, err := decompressPayload(b[1:])
			if err != nil {
				return err
			}
			return walk(pl, depth+1)
		default:
			out = append(out, wireMsg{t, b[1:]})
		}
		return nil
	}
	if err := walk(buf, 0); err != nil {
		return out, err
	}
	return out, nil
}
