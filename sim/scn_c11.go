package memberlist

// C11 — piggyback packing is lossless and stays within the packet budget.

import (
	"fmt"
	"net"
	"sort"
	"strings"
	"time"
)

func init() {
	register(&Scenario{Name: "C11", Gen: genC11, Exec: execC11})
}

func genC11(c *Ctx) *Plan {
	r := c.R
	cp := benchCfg(r)
	cp.UDPBuf = r.pick(512, 512, 1400, 1400, 1400, 4096, 16384, 65507)
	if cp.UDPBuf < 65507 && r.chance(0.6) {
		cp.UDPBuf += r.intn(64) // block-size and padding boundaries of every alignment
	}
	cp.Encrypt = r.pick(0, 0, 16, 24, 32)
	cp.ProtocolVersion = r.pick(1, 2, 2, 5)
	cp.Compression = r.chance(0.4)
	cp.VerifyOutgoing = r.chance(0.85)
	cp.VerifyIncoming = cp.VerifyOutgoing // a receiver that insists on ciphertext would rightly drop cleartext
	cp.RetransmitMult = r.rangeI(1, 3)
	cp.GossipNodes = 1
	cp.HandoffDepth = 200000
	cp.GossipToDeadMs = 3600_000
	cp.IndirectChecks = 1
	cp.DisableTcpPings = true
	ll := r.pick(0, 0, 1, 7, 64, 255)
	if ll > 0 {
		cp.Label = strings.Repeat("l", ll)
	}
	p := &Plan{Cfg: cp, P: map[string]int64{}, YieldOff: []string{"*"}}
	// queue content profile
	p.P["profile"] = int64(r.pick(0, 0, 1, 2, 3)) // 0 many tiny, 1 mixed, 2 near-maximal, 3 few
	p.P["nmsgs"] = int64(r.pick(3, 40, 300, 700))
	p.P["nuser"] = int64(r.pick(0, 0, 3, 30, 300))
	p.P["usermax"] = int64(r.pick(1, 10, 100, 1300))
	p.P["rounds"] = int64(r.rangeI(2, 6))
	return p
}

func execC11(c *Ctx) {
	p := c.Plan
	l := newLab(c, p.Cfg, nil)
	defer l.finish()
	S, R := l.S, l.R
	sim := l.sim
	r := newRng(hash64(c.Seed, 0xc11))
	limit := S.conf.UDPBufferSize
	// S knows R (alive, PMax 5) and a silent third member "z" (for indirect pings)
	S.m.aliveNode(&alive{Incarnation: 1, Node: "rcv", Addr: R.ip, Port: 7946, Vsn: R.conf.BuildVsnArray()}, nil, false)
	S.m.aliveNode(&alive{Incarnation: 1, Node: "z", Addr: ip4(10, 0, 0, 4), Port: 7946, Vsn: c01Vsn(0)}, nil, false)
	S.m.broadcasts.Reset()
	R.m.broadcasts.Reset()
	z := &puppet{name: "z"}
	z.ep = l.cl.net.newEndpoint(92, "z", ip4(10, 0, 0, 4), 7946)
	z.ep.yieldOff = true
	go func() {
		for {
			select {
			case <-z.ep.packetCh:
			case cn := <-z.ep.streamCh:
				_ = cn.Close()
			case <-sim.quit:
				return
			}
		}
	}()
	// tap: sizes of everything S hands to the transport toward R or z
	var sent []c11pkt
	over := 0
	l.cl.net.tapFn = func(tr *tapRec) {
		if tr.From == "rcv" {
			l.onTap(tr)
			return
		}
		if tr.From != "snd" || tr.Stream {
			return
		}
		sent = append(sent, c11pkt{tr.To, len(tr.Buf)})
		if len(tr.Buf) > limit && over == 0 {
			over = len(tr.Buf)
			c.Violate("packet-over-budget", "", "snd", "packet of %d bytes handed to the transport, UDPBufferSize is %d (label %d bytes, encryption %d/v%d verify-outgoing=%v, compression %v, peer PMax 5 -> CRC header)", len(tr.Buf), limit, len(p.Cfg.Label), p.Cfg.Encrypt, boolInt(p.Cfg.ProtocolVersion > 1), p.Cfg.VerifyOutgoing, p.Cfg.Compression)
		}
	}
	nameSeq := 0
	queueBatch := func() {
		prof := p.param("profile", 0)
		n := int(p.param("nmsgs", 40))
		for i := 0; i < n; i++ {
			nameSeq++
			name := fmt.Sprintf("m%d", nameSeq)
			meta := []byte{}
			switch prof {
			case 1:
				if r.chance(0.3) {
					meta = r.bytes(r.intn(400))
				}
			case 2:
				name = fmt.Sprintf("m%d-%s", nameSeq, strings.Repeat("n", r.rangeI(100, 200)))
				meta = r.bytes(r.rangeI(300, 512))
			case 3:
				if i > 2 {
					return
				}
				meta = r.bytes(r.intn(512))
			}
			a := alive{Incarnation: uint32(1 + r.intn(5)), Node: name, Addr: ip4(10, 1, byte(nameSeq>>8), byte(nameSeq)), Port: 7946, Meta: meta, Vsn: c01Vsn(0)}
			S.m.queueBroadcast(name, mustEncode(aliveMsg, &a), nil)
		}
		nu := int(p.param("nuser", 0))
		um := int(p.param("usermax", 10))
		S.mu.Lock()
		for i := 0; i < nu; i++ {
			nameSeq++
			pl := append([]byte(fmt.Sprintf("U%06d:", nameSeq)), r.bytes(r.intn(um+1))...)
			S.userBcast = append(S.userBcast, pl)
		}
		S.mu.Unlock()
	}
	// items handed out by the queue during one trigger = transmit counters that moved
	type qsnap map[string]int
	snapQ := func() qsnap {
		q := S.m.broadcasts
		q.mu.Lock()
		defer q.mu.Unlock()
		out := qsnap{}
		for name, lb := range q.tm {
			out[name] = lb.transmits
		}
		return out
	}
	trigger := func(kind int) string {
		switch kind {
		case 0:
			S.m.gossip()
			return "gossip tick"
		case 1:
			st := *S.m.nodeMap["rcv"]
			done := false
			go func() { S.m.probeNode(&st); done = true }()
			sim.RunUntil(sim.Now()+2*S.conf.ProbeInterval, func() bool { return done })
			return "probe ping"
		case 2:
			S.ep.deliverPacket(wrapPacketFor(S, mustEncode(pingMsg, &ping{SeqNo: uint32(7000 + nameSeq), Node: "snd", SourceAddr: R.ip, SourcePort: 7946, SourceNode: "rcv"}), false, false), &net.UDPAddr{IP: R.ip, Port: 7946})
			return "ack to a ping"
		case 3:
			// indirect ping request from R about z: S pings z (piggyback), then nacks R (piggyback)
			S.ep.deliverPacket(wrapPacketFor(S, mustEncode(indirectPingMsg, &indirectPingReq{SeqNo: uint32(8000 + nameSeq), Target: ip4(10, 0, 0, 4), Port: 7946, Node: "z", Nack: true, SourceAddr: R.ip, SourcePort: 7946, SourceNode: "rcv"}), false, false), &net.UDPAddr{IP: R.ip, Port: 7946})
			sim.Settle()
			sim.Run(S.conf.ProbeTimeout + 5*time.Millisecond)
			return "indirect ping + nack"
		case 4:
			// relayed ack: R asks S to ping z, z acks S's ping, S relays to R
			var pingSeq uint32
			prev := l.cl.net.tapFn
			l.cl.net.tapFn = func(tr *tapRec) {
				prev(tr)
				if tr.From == "snd" && tr.To == "10.0.0.4:7946" {
					if ms, err := decodePacket(S.conf, tr.Buf); err == nil {
						for _, wm := range ms {
							if wm.Type == pingMsg {
								var pg ping
								if decode(wm.Body, &pg) == nil {
									pingSeq = pg.SeqNo
								}
							}
						}
					}
				}
			}
			S.ep.deliverPacket(wrapPacketFor(S, mustEncode(indirectPingMsg, &indirectPingReq{SeqNo: uint32(9000 + nameSeq), Target: ip4(10, 0, 0, 4), Port: 7946, Node: "z", Nack: false, SourceAddr: R.ip, SourcePort: 7946, SourceNode: "rcv"}), false, false), &net.UDPAddr{IP: R.ip, Port: 7946})
			sim.Settle()
			l.cl.net.tapFn = prev
			if pingSeq != 0 {
				S.ep.deliverPacket(wrapPacketFor(S, mustEncode(ackRespMsg, &ackResp{SeqNo: pingSeq}), false, false), &net.UDPAddr{IP: ip4(10, 0, 0, 4), Port: 7946})
			}
			return "relayed ack"
		}
		return ""
	}
	rounds := int(p.param("rounds", 3))
	packets := 0
	big := 0
	for round := 0; round < rounds && !c.Failed(); round++ {
		queueBatch()
		for kind := 0; kind < 5 && !c.Failed(); kind++ {
			before := snapQ()
			nb0 := len(S.bcastLog)
			sent = nil
			nmsg0 := len(R.msgs)
			what := trigger(kind)
			sim.Settle()
			sim.Run(time.Millisecond)
			sim.Settle()
			after := snapQ()
			// membership broadcasts handed out for this trigger
			var handed []string
			for name, t0 := range before {
				if t1, ok := after[name]; !ok || t1 > t0 {
					handed = append(handed, name)
				}
			}
			sort.Strings(handed)
			// only packets addressed to R are delivered to a real receiver; the others (to z) are size-checked only
			toR := 0
			for _, s := range sent {
				if s.to == R.ep.addr {
					toR++
				}
			}
			packets += len(sent)
			if len(handed) > 255 {
				big++
				c.Reach("more_than_255_parts_handed_out")
			}
			if toR == len(sent) && toR > 0 {
				// every handed-out alive must have been seen by R's handler
				missing := 0
				first := ""
				for _, name := range handed {
					if name == "rcv" || name == "z" || name == "snd" {
						continue
					}
					if v := R.view(name); !v.Present {
						missing++
						if first == "" {
							first = name
						}
					}
				}
				if missing > 0 {
					c.Violate("piggybacked-messages-lost", "", "rcv", "%s: the queue handed out %d membership broadcasts for %d packet(s) (sizes %v) but %d of them never reached the receiver's handlers (first: %s)", what, len(handed), len(sent), sizesOf(sent), missing, first)
					break
				}
				// user payloads: what the delegate handed out == what R's delegate received
				var out []string
				S.mu.Lock()
				for _, bc := range S.bcastLog[nb0:] {
					for _, b := range bc.Ret {
						out = append(out, string(b))
					}
				}
				S.mu.Unlock()
				var got []string
				R.mu.Lock()
				for _, m := range R.msgs[nmsg0:] {
					got = append(got, string(m.Buf))
				}
				R.mu.Unlock()
				sort.Strings(out)
				sort.Strings(got)
				if !eqStrs(out, got) {
					c.Violate("user-broadcasts-lost-or-altered", "", "rcv", "%s: the sender's delegate handed out %d user messages, the receiver's delegate got %d (byte-for-byte multiset differs)", what, len(out), len(got))
					break
				}
				if len(out) > 0 {
					c.Reach("user_payloads_checked")
				}
			}
			// the delegate was given a limit it could obey
			S.mu.Lock()
			for _, bc := range S.bcastLog[nb0:] {
				tot := 0
				for _, b := range bc.Ret {
					tot += len(b) + bc.Overhead
				}
				if tot > bc.Limit {
					c.Res.HarnessErr = "delegate exceeded its limit"
				}
			}
			S.mu.Unlock()
			c.Reach("path_" + strings.ReplaceAll(what, " ", "_"))
		}
	}
	c.Res.Nontrivial = packets > 0
	c.Stat("packets", int64(packets))
	c.Res.FP = fmt.Sprintf("%016x", hash64(uint64(p.Cfg.UDPBuf), uint64(len(p.Cfg.Label)), uint64(p.Cfg.Encrypt), uint64(p.Cfg.ProtocolVersion), uint64(boolInt(p.Cfg.Compression)), uint64(boolInt(p.Cfg.VerifyOutgoing)), uint64(p.param("profile", 0)), uint64(p.param("nmsgs", 0)), uint64(p.param("nuser", 0)), uint64(p.param("usermax", 0))))
	c.Res.Sample = map[string]any{"udp_buf": limit, "label_len": len(p.Cfg.Label), "enc": p.Cfg.Encrypt, "profile": p.param("profile", 0), "msgs_per_round": p.param("nmsgs", 0), "packets": packets}
}

type c11pkt struct {
	to   string
	size int
}

func sizesOf(s []c11pkt) []int {
	var o []int
	for _, x := range s {
		o = append(o, x.size)
	}
	return o
}
