package memberlist

// Worker entry point: TestVerifSim runs a range of seeds of one scenario,
// one synctest bubble per run, and writes one JSON line per run.

import (
	"sync"
	crand "crypto/rand"
	"bufio"
	"encoding/json"
	"fmt"
	"math/rand"
	"os"
	"os/exec"
	"runtime/debug"
	"sort"
	"strconv"
	"strings"
	"testing"
	"testing/synctest"
	"time"
)

type Violation struct {
	Class string `json:"class"`
	Msg   string `json:"msg"`
	Node  string `json:"node,omitempty"`
	T     int64  `json:"t"`
	Step  int    `json:"step"`
	Sig   string `json:"sig,omitempty"` // known-finding signature (stable id of the failing case)
}

type RunResult struct {
	Scn        string           `json:"scn"`
	Seed       uint64           `json:"seed"`
	OK         bool             `json:"ok"`
	Violations []Violation      `json:"violations,omitempty"`
	HarnessErr string           `json:"harness_err,omitempty"`
	Steps      int              `json:"steps"`
	SimNs      int64            `json:"sim_ns"`
	WallUs     int64            `json:"wall_us"`
	Hash       string           `json:"hash"`
	FP         string           `json:"fp"`
	Nontrivial bool             `json:"nontrivial"`
	Faults     map[string]int64 `json:"faults,omitempty"`
	Reach      map[string]int64 `json:"reach,omitempty"`
	Stats      map[string]int64 `json:"stats,omitempty"`
	Sites      map[string]int64 `json:"sites,omitempty"`
	Sample     any              `json:"sample,omitempty"`
	Plan       *Plan            `json:"plan,omitempty"`
	Trace      []traceRec       `json:"trace,omitempty"`
	Logs       map[string][]string `json:"logs,omitempty"`
	Replay     string           `json:"replay,omitempty"`
	Minimized  bool             `json:"minimized,omitempty"`
}

// Ctx is handed to a scenario for one run.
type Ctx struct {
	T     *testing.T
	Tier  string
	Seed  uint64
	R     *rng // plan-generation PRNG
	Plan  *Plan
	Sim   *Sim
	Res   *RunResult
	wantSample bool
}

func (c *Ctx) Violate(class, sig, node, format string, args ...any) {
	v := Violation{Class: class, Sig: sig, Node: node, Msg: fmt.Sprintf(format, args...)}
	if c.Sim != nil {
		v.T = int64(c.Sim.Now())
		v.Step = c.Sim.Steps
	}
	if len(c.Res.Violations) < 20 {
		c.Res.Violations = append(c.Res.Violations, v)
	}
	c.Res.OK = false
}
func (c *Ctx) Failed() bool { return len(c.Res.Violations) > 0 }
func (c *Ctx) Reach(k string) {
	c.Res.Reach[k]++
}
func (c *Ctx) ReachN(k string, n int64) { c.Res.Reach[k] += n }
func (c *Ctx) Stat(k string, n int64)   { c.Res.Stats[k] += n }

// Scenario: Gen produces a plan from the seed; Exec runs a plan inside a bubble.
type Scenario struct {
	Name string
	Gen  func(c *Ctx) *Plan
	Exec func(c *Ctx)
	// NoBubble scenarios do not need virtual time (pure object histories)
	NoBubble bool
}

var scenarios = map[string]*Scenario{}

func register(s *Scenario) { scenarios[s.Name] = s }

func runOne(t *testing.T, scn *Scenario, tier string, seed uint64, plan *Plan, keepTrace bool) *RunResult {
	res := &RunResult{Scn: scn.Name, Seed: seed, OK: true, Faults: map[string]int64{}, Reach: map[string]int64{}, Stats: map[string]int64{}}
	ctx := &Ctx{T: t, Tier: tier, Seed: seed, R: newRng(hash64(seed, hashStr(scn.Name))), Res: res}
	if plan == nil {
		plan = scn.Gen(ctx)
		plan.Scn = scn.Name
		plan.Seed = seed
	}
	ctx.Plan = plan
	res.Plan = plan
	curRun.Store(res)
	progressTick()
	start := time.Now()
	body := func(t *testing.T) {
		rand.Seed(int64(hash64(seed, 0x72616e64) >> 1))
		// AES-GCM nonces come from crypto/rand.Reader: seeded as well, so that ciphertext bytes
		// (and everything derived from captured traffic: mutations, compressed lengths) replay
		crand.Reader = &detReader{x: hash64(seed, 0x6e6f6e6365)}
		sim := newSim(seed)
		sim.keepTrace = keepTrace
		for _, s := range plan.YieldOff {
			if s == "*" {
				sim.yieldAll = false
				sim.yieldSites = map[string]bool{}
			}
		}
		if sim.yieldAll && len(plan.YieldOff) > 0 {
			sim.yieldAll = false
			sim.yieldSites = map[string]bool{}
			off := map[string]bool{}
			for _, s := range plan.YieldOff {
				off[s] = true
			}
			for _, s := range allYieldSites {
				if !off[s] {
					sim.yieldSites[s] = true
				}
			}
		}
		sim.bindOn = sim.siteActive("decryptkey")
		ctx.Sim = sim
		defer func() {
			// a panic on the driver goroutine (library code called directly, or a
			// harness bug) must not kill the worker: classify it by its stack
			if r := recover(); r != nil {
				msg := fmt.Sprint(r)
				st := string(debug.Stack())
				if panicInRepo(st) {
					ctx.Violate("panic", "", "", "panic: %s\n%s", msg, trimStack(st))
				} else {
					res.HarnessErr = "panic: " + msg + "\n" + trimStack(st)
					res.OK = false
				}
				sim.Stop()
			}
		}()
		defer func() {
			res.Steps = sim.Steps
			res.SimNs = int64(sim.Now())
			res.Hash = sim.TraceHash()
			if res.FP == "" {
				res.FP = sim.Fingerprint()
			}
			res.Sites = sim.siteHits
			if sim.overrun {
				res.HarnessErr = "step budget exhausted"
			}
			if !res.OK || keepTrace {
				res.Trace = sim.trace
			}
		}()
		scn.Exec(ctx)
	}
	func() {
		defer func() {
			if r := recover(); r != nil {
				msg := fmt.Sprint(r)
				st := string(debug.Stack())
				if strings.Contains(msg, "deadlock: main bubble goroutine has exited but blocked goroutines remain") {
					if res.HarnessErr != "" {
						return // the run was abandoned on a harness error before its teardown
					}
					ctx.Violate("goroutine-leak", "", "", "blocked goroutines remain at bubble exit: %s", msg)
					return
				}
				// A panic on the driver goroutine: library code called directly
				// (bench mode) or harness bug. Attribute by stack.
				if panicInRepo(st) {
					ctx.Violate("panic", "", "", "panic: %s\n%s", msg, trimStack(st))
				} else {
					res.HarnessErr = "panic: " + msg + "\n" + trimStack(st)
					res.OK = false
				}
			}
		}()
		if scn.NoBubble {
			body(t)
		} else {
			synctest.Test(t, body)
		}
	}()
	res.WallUs = time.Since(start).Microseconds()
	return res
}

// panicInRepo: the innermost non-runtime frame of the panic is library code
// (a file under /repo that is not an overlaid zz_verif_ harness file).
func panicInRepo(stack string) bool {
	lines := strings.Split(stack, "\n")
	seenPanic := false
	for _, l := range lines {
		l = strings.TrimSpace(l)
		if strings.HasPrefix(l, "panic(") {
			seenPanic = true
			continue
		}
		if !seenPanic || !strings.HasPrefix(l, "/") {
			continue
		}
		if strings.Contains(l, "/src/runtime/") || strings.Contains(l, "/src/testing/") {
			continue
		}
		return strings.HasPrefix(l, repoRoot()+"/") && !strings.Contains(l, "zz_verif_")
	}
	return false
}

func trimStack(st string) string {
	lines := strings.Split(st, "\n")
	if len(lines) > 40 {
		lines = lines[:40]
	}
	return strings.Join(lines, "\n")
}

// togglableYieldSites may be switched off per run ("buggify"): they do not
// guard a draw from the global math/rand stream, so replay stays exact.
var togglableYieldSites = []string{"acktimeout", "suspect", "susptimeout", "susptimeout2", "conn", "dead", "leave1", "leave2", "update", "shutdown1", "shutdown2", "decryptkey", "evcb"}

func genYieldOff(r *rng) []string {
	if r.chance(0.5) {
		return nil
	}
	var off []string
	for _, s := range togglableYieldSites {
		if r.chance(0.3) {
			off = append(off, s)
		}
	}
	return off
}

var allYieldSites = []string{"conn", "susptimeout2", "handoff", "trigger", "pptrigger", "probe", "indirect", "gossip", "pushpull", "acktimeout", "alive", "suspect", "susptimeout", "dead", "leave1", "leave2", "update", "shutdown1", "shutdown2", "decryptkey", "write", "dial", "evcb", "alivedel"}

// ---------------------------------------------------------------- shrinking

func clonePlan(p *Plan) *Plan {
	b, _ := json.Marshal(p)
	var q Plan
	_ = json.Unmarshal(b, &q)
	return &q
}

// shrinkCandidates yields simpler plans (generic: drop ops, drop faults).
func shrinkCandidates(p *Plan) []*Plan {
	var out []*Plan
	n := len(p.Ops)
	for chunk := n / 2; chunk >= 1; chunk /= 2 {
		for i := 0; i+chunk <= n; i += chunk {
			q := clonePlan(p)
			q.Ops = append(append([]Op(nil), p.Ops[:i]...), p.Ops[i+chunk:]...)
			out = append(out, q)
		}
		if chunk == 1 {
			break
		}
	}
	z := NetPlan{}
	if p.Net.Loss != 0 {
		q := clonePlan(p)
		q.Net.Loss = 0
		out = append(out, q)
	}
	if p.Net.Dup != 0 {
		q := clonePlan(p)
		q.Net.Dup = 0
		out = append(out, q)
	}
	if p.Net.HeavyTail != 0 {
		q := clonePlan(p)
		q.Net.HeavyTail = 0
		out = append(out, q)
	}
	if p.Net.StreamCut != 0 || p.Net.StreamStall != 0 || p.Net.DialRefuse != 0 {
		q := clonePlan(p)
		q.Net.StreamCut, q.Net.StreamStall, q.Net.DialRefuse = 0, 0, 0
		out = append(out, q)
	}
	for i := range p.Net.Parts {
		q := clonePlan(p)
		q.Net.Parts = append(append([]Partition(nil), p.Net.Parts[:i]...), p.Net.Parts[i+1:]...)
		out = append(out, q)
	}
	_ = z
	return out
}

func planSize(p *Plan) int {
	s := len(p.Ops)*10 + len(p.Net.Parts)*5
	if p.Net.Loss != 0 {
		s++
	}
	if p.Net.Dup != 0 {
		s++
	}
	if p.Net.HeavyTail != 0 {
		s++
	}
	if p.Net.StreamCut != 0 || p.Net.StreamStall != 0 || p.Net.DialRefuse != 0 {
		s++
	}
	return s
}

// runPlanSubprocess executes one plan in a fresh process (robust against
// panics on library goroutines) and returns its result (nil on crash).
func runPlanSubprocess(scn string, tier string, p *Plan, dir string, tag string) (*RunResult, string) {
	pf := fmt.Sprintf("%s/plan-%s.json", dir, tag)
	of := fmt.Sprintf("%s/out-%s.jsonl", dir, tag)
	b, _ := json.Marshal(p)
	_ = os.WriteFile(pf, b, 0o644)
	_ = os.Remove(of)
	cmd := exec.Command(os.Args[0], "-test.run", "^TestVerifSim$", "-test.timeout", "0")
	cmd.Env = append(os.Environ(), "VERIF_SCN="+scn, "VERIF_PLAN="+pf, "VERIF_OUT="+of, "VERIF_TIER="+tier, "VERIF_MINIMIZE=0", "VERIF_SEEDS=", "VERIF_STALL_S=12")
	outb, _ := cmd.CombinedOutput()
	defer os.Remove(pf)
	defer os.Remove(of)
	f, err := os.Open(of)
	if err != nil {
		return nil, string(outb)
	}
	defer f.Close()
	sc := bufio.NewScanner(f)
	sc.Buffer(make([]byte, 1<<20), 1<<28)
	var last *RunResult
	for sc.Scan() {
		var r RunResult
		if json.Unmarshal(sc.Bytes(), &r) == nil && r.Scn != "" {
			rr := r
			last = &rr
		}
	}
	return last, string(outb)
}

func violationKey(r *RunResult, crashOut string) string {
	if r == nil {
		if strings.Contains(crashOut, "panic:") || strings.Contains(crashOut, "fatal error:") {
			return "crash"
		}
		return ""
	}
	if r.HarnessErr != "" && len(r.Violations) == 0 {
		return ""
	}
	if len(r.Violations) == 0 {
		return ""
	}
	return r.Violations[0].Class + "|" + r.Violations[0].Sig
}

// minimize shrinks a failing plan, keeping candidates whose first violation has
// the same class+signature. Budgeted.
func minimize(scn, tier string, p *Plan, key string, dir string, budget int, deadline time.Time) (*Plan, int) {
	cur := p
	tries := 0
	improved := true
	for improved && tries < budget && time.Now().Before(deadline) {
		improved = false
		for i, q := range shrinkCandidates(cur) {
			if tries >= budget || !time.Now().Before(deadline) {
				break
			}
			if planSize(q) >= planSize(cur) {
				continue
			}
			tries++
			r, out := runPlanSubprocess(scn, tier, q, dir, fmt.Sprintf("m%d-%d", os.Getpid(), i))
			if violationKey(r, out) == key {
				cur = q
				improved = true
				break
			}
		}
	}
	return cur, tries
}

// ---------------------------------------------------------------- entry

func TestVerifSim(t *testing.T) {
	scnName := os.Getenv("VERIF_SCN")
	if scnName == "" {
		t.Skip("VERIF_SCN not set")
	}
	scn := scenarios[scnName]
	if scn == nil {
		var names []string
		for k := range scenarios {
			names = append(names, k)
		}
		sort.Strings(names)
		t.Fatalf("unknown scenario %q; have %v", scnName, names)
	}
	tier := os.Getenv("VERIF_TIER")
	if tier == "" {
		tier = "quick"
	}
	outPath := os.Getenv("VERIF_OUT")
	var out *os.File
	if outPath != "" {
		f, err := os.OpenFile(outPath, os.O_CREATE|os.O_WRONLY|os.O_APPEND, 0o644)
		if err != nil {
			t.Fatal(err)
		}
		defer f.Close()
		out = f
	} else {
		out = os.Stdout
	}
	emit := func(v any) {
		b, _ := json.Marshal(v)
		b = append(b, '\n')
		_, _ = out.Write(b)
	}
	startStallMonitor(emit)
	keepTrace := os.Getenv("VERIF_TRACE") == "1"
	doMin := os.Getenv("VERIF_MINIMIZE") == "1"
	replayDir := os.Getenv("VERIF_REPLAY_DIR")
	tmpDir := os.Getenv("VERIF_TMP")
	if tmpDir == "" {
		tmpDir = os.TempDir()
	}

	if pf := os.Getenv("VERIF_PLAN"); pf != "" {
		b, err := os.ReadFile(pf)
		if err != nil {
			t.Fatal(err)
		}
		var holder struct {
			Plan *Plan `json:"plan"`
		}
		var p Plan
		if json.Unmarshal(b, &holder) == nil && holder.Plan != nil {
			p = *holder.Plan
		} else if err := json.Unmarshal(b, &p); err != nil {
			t.Fatal(err)
		}
		emit(map[string]any{"start": p.Seed})
		res := runOne(t, scn, tier, p.Seed, &p, keepTrace)
		emit(res)
		return
	}

	spec := os.Getenv("VERIF_SEEDS") // "start:count" or comma list
	var seeds []uint64
	if strings.Contains(spec, ":") {
		parts := strings.SplitN(spec, ":", 2)
		a, _ := strconv.ParseUint(parts[0], 10, 64)
		n, _ := strconv.ParseUint(parts[1], 10, 64)
		for i := uint64(0); i < n; i++ {
			seeds = append(seeds, a+i)
		}
	} else {
		for _, s := range strings.Split(spec, ",") {
			if s = strings.TrimSpace(s); s != "" {
				v, _ := strconv.ParseUint(s, 10, 64)
				seeds = append(seeds, v)
			}
		}
	}
	var wallBudget time.Duration
	if s := os.Getenv("VERIF_WALL_S"); s != "" {
		v, _ := strconv.ParseFloat(s, 64)
		wallBudget = time.Duration(v * float64(time.Second))
	}
	t0 := time.Now()
	sampled := 0
	minimized := 0
	for _, seed := range seeds {
		if wallBudget > 0 && time.Since(t0) > wallBudget {
			break
		}
		emit(map[string]any{"start": seed})
		res := runOne(t, scn, tier, seed, nil, keepTrace)
		if !res.OK && res.HarnessErr == "" && doMin && minimized < 2 {
			minimized++
			stallPaused.Store(true)
			key := violationKey(res, "")
			mp, tries := minimize(scnName, tier, res.Plan, key, tmpDir, 150, time.Now().Add(60*time.Second))
			if planSize(mp) < planSize(res.Plan) {
				// re-run the minimized plan here to get its violation record
				r2, _ := runPlanSubprocess(scnName, tier, mp, tmpDir, fmt.Sprintf("f%d", os.Getpid()))
				if violationKey(r2, "") == key {
					r2.Minimized = true
					if r2.Stats == nil {
						r2.Stats = map[string]int64{}
					}
					r2.Stats["shrink_tries"] = int64(tries)
					r2.Stats["orig_ops"] = int64(len(res.Plan.Ops))
					res = r2
				}
			}
		}
		stallPaused.Store(false)
		progressTick()
		if !res.OK && replayDir != "" && res.HarnessErr == "" {
			rp := fmt.Sprintf("%s/%s-%d.json", replayDir, scnName, seed)
			b, _ := json.MarshalIndent(res, "", " ")
			if os.WriteFile(rp, b, 0o644) == nil {
				res.Replay = rp
			}
		}
		if res.OK {
			// keep output small: drop the plan except for a few samples
			if sampled < 2 && res.Nontrivial {
				sampled++
			} else {
				res.Plan = nil
				res.Sample = nil
			}
			if !keepTrace {
				res.Trace = nil
			}
		}
		emit(res)
	}
	emit(map[string]any{"done": true})
}

func repoRoot() string {
	if root := os.Getenv("VERIF_REPO"); root != "" {
		return root
	}
	return "/repo"
}

// detReader is a seeded stand-in for crypto/rand.Reader (splitmix64 stream).
type detReader struct {
	mu sync.Mutex
	x  uint64
}

func (d *detReader) Read(p []byte) (int, error) {
	d.mu.Lock()
	defer d.mu.Unlock()
	for i := 0; i < len(p); {
		d.x += 0x9e3779b97f4a7c15
		z := d.x
		z = (z ^ (z >> 30)) * 0xbf58476d1ce4e5b9
		z = (z ^ (z >> 27)) * 0x94d049bb133111eb
		z ^= z >> 31
		for k := 0; k < 8 && i < len(p); k, i = k+1, i+1 {
			p[i] = byte(z >> (8 * k))
		}
	}
	return len(p), nil
}
