package memberlist

// C19 — probe acknowledgements: correlation, relay, clean-up, health score.

import (
	"bufio"
	"fmt"
	"net"
	"sort"
	"time"
)

func init() {
	register(&Scenario{Name: "C19", Gen: genC19, Exec: execC19})
}

// Episode ops:
//  "probe": L = script entries, 4 numbers each: [who, kind, seqsel, dt_ns]
//       who: 0 = target, 1..3 = helper i (only if it was asked), 9 = stranger
//       kind: 0 ack, 1 nack ; seqsel: 0 right, 1 foreign(+1000), 2 old(-1), 3 future(+1)
//     A = tcp behaviour of the target: 0 none(accept, silent) 1 ack right 2 ack wrong 3 close at once ; B = tcp reply delay ns
//  "relay": A = nack wanted(1/0) ; B = target ack kind (0 none, 1 right, 2 wrong) ; C = ack delay ns
func genC19(c *Ctx) *Plan {
	r := c.R
	cp := benchCfg(r)
	cp.Encrypt, cp.Label, cp.Compression = 0, "", false
	cp.ProbeIntervalMs = r.pick(400, 1000)
	cp.ProbeTimeoutMs = cp.ProbeIntervalMs / r.pick(2, 4)
	cp.IndirectChecks = r.rangeI(0, 3)
	cp.AwarenessMax = r.rangeI(1, 8)
	cp.DisableTcpPings = r.chance(0.4)
	cp.SuspicionMult = 6
	cp.SuspicionMaxMult = 6
	p := &Plan{Cfg: cp, P: map[string]int64{}, YieldOff: []string{"*"}}
	p.P["helpers"] = int64(r.rangeI(0, 3))
	p.P["pmax1"] = int64(r.pick(2, 3, 4, 5))
	p.P["pmax2"] = int64(r.pick(2, 4, 5))
	p.P["pmax3"] = int64(r.pick(3, 4, 5))
	p.P["tpmax"] = int64(r.pick(2, 3, 5))
	pt := int64(ms(cp.ProbeTimeoutMs))
	pi := int64(ms(cp.ProbeIntervalMs))
	n := r.rangeI(1, 6)
	for e := 0; e < n; e++ {
		if r.chance(0.65) {
			op := Op{Kind: "probe", A: int64(r.pick(0, 1, 1, 2, 3)), B: r.i64n(pi)}
			k := r.rangeI(0, 6)
			for i := 0; i < k; i++ {
				who := int64(r.pick(0, 0, 0, 1, 2, 3, 9))
				kind := int64(r.pick(0, 0, 0, 1))
				if who >= 1 && who <= 3 {
					kind = int64(r.pick(0, 1, 1))
				}
				seqsel := int64(r.pick(0, 0, 0, 1, 2, 3))
				var dt int64
				switch r.intn(6) {
				case 0:
					dt = pt + int64(r.pick(-1_000_000, -1000, 1000, 1_000_000))
				case 1:
					dt = pi*8 + int64(r.pick(-1000, 1000)) // around the largest scaled deadline; refined at run time
				case 2:
					dt = -1 // "just before the deadline" (resolved at run time)
				case 3:
					dt = -2 // "just after the deadline"
				default:
					dt = 1000 + r.i64n(pi*2)
				}
				op.L = append(op.L, who, kind, seqsel, dt)
			}
			p.Ops = append(p.Ops, op)
		} else {
			dt := 1000 + r.i64n(2*pt)
			switch r.intn(4) {
			case 0:
				dt = pt - 1_000_000
			case 1:
				dt = pt + 1_000_000
			}
			p.Ops = append(p.Ops, Op{Kind: "relay", A: int64(r.intn(2)), B: int64(r.pick(0, 1, 1, 2, 3)), C: dt}) // B=3: the relay's own send to the target fails with an error
		}
	}
	return p
}

type c19deliv struct {
	t    time.Duration
	nack bool
	seq  uint32
	from string
}

func execC19(c *Ctx) {
	p := c.Plan
	b := newBench(c, p.Cfg, false, nil)
	defer b.finish()
	m := b.n.m
	sim := b.sim
	conf := m.config
	nh := int(p.param("helpers", 1))
	tip := net.IPv4(10, 0, 2, 1).To4()
	target := b.addPuppet("t", tip)
	tpmax := uint8(p.param("tpmax", 5))
	m.aliveNode(&alive{Incarnation: 1, Node: "t", Addr: tip, Port: 7946, Vsn: []uint8{1, tpmax, 2, 0, 0, 0}}, nil, false)
	type helper struct {
		p    *puppet
		pmax uint8
		ip   net.IP
	}
	var helpers []*helper
	for i := 1; i <= nh; i++ {
		ip := net.IPv4(10, 0, 2, byte(1+i)).To4()
		h := &helper{p: b.addPuppet(fmt.Sprintf("h%d", i), ip), pmax: uint8(p.param(fmt.Sprintf("pmax%d", i), 5)), ip: ip}
		helpers = append(helpers, h)
		m.aliveNode(&alive{Incarnation: 1, Node: h.p.name, Addr: ip, Port: 7946, Vsn: []uint8{1, h.pmax, 2, 0, 0, 0}}, nil, false)
	}
	strangerAddr := &net.UDPAddr{IP: net.IPv4(10, 0, 2, 99).To4(), Port: 7946}
	addrOf := func(who int64) net.Addr {
		switch {
		case who == 0:
			return &net.UDPAddr{IP: tip, Port: 7946}
		case who >= 1 && int(who) <= len(helpers):
			return &net.UDPAddr{IP: helpers[who-1].ip, Port: 7946}
		}
		return strangerAddr
	}
	// state of the current episode, filled by the tap
	var (
		probeSeq     uint32
		probeSent    time.Duration = -1
		asked        = map[int]bool{}
		askedNack    = map[int]bool{}
		askedSeqOK   = true
		delivered    []c19deliv
		relayPing    *ping
		relayPingAt  time.Duration
		relayOut     []wireMsg // what the requester received
		relayOutT    []time.Duration
		seenSeq      = map[uint32]bool{}
		curOp        *Op
		tcpAttempted bool
		tcpRightAck  time.Duration = -1
		evSeq        uint64
		epoch        int
	)
	maxH := conf.AwarenessMaxMultiplier - 1
	deliver := func(at time.Duration, from net.Addr, mt messageType, body any, rec *c19deliv) {
		raw := mustEncode(mt, body)
		evSeq++
		myEp := epoch
		sim.At(at, 1<<58, evSeq, "script", func() {
			if myEp != epoch {
				return // scripted for an earlier episode
			}
			if rec != nil {
				rec.t = sim.Now()
				delivered = append(delivered, *rec)
			}
			b.n.ep.deliverPacket(raw, from)
		})
	}
	seqFor := func(sel int64, right uint32) uint32 {
		switch sel {
		case 1:
			return right + 1000
		case 2:
			return right - 1
		case 3:
			return right + 1
		}
		return right
	}
	b.cl.net.tapFn = func(r *tapRec) {
		if r.From != "obs" || r.Stream {
			return
		}
		msgs, err := decodePacket(conf, r.Buf)
		if err != nil {
			return
		}
		for _, wm := range msgs {
			switch wm.Type {
			case pingMsg:
				var pg ping
				if decode(wm.Body, &pg) != nil {
					continue
				}
				if seenSeq[pg.SeqNo] {
					c.Violate("seqno-reused", "", "obs", "ping to %s reuses sequence number %d", r.To, pg.SeqNo)
				}
				seenSeq[pg.SeqNo] = true
				if curOp == nil {
					continue
				}
				if curOp.Kind == "probe" && probeSent < 0 {
					probeSeq = pg.SeqNo
					probeSent = r.T
					deadline := probeSent + m.awareness.ScaleTimeout(conf.ProbeInterval)
					// schedule the scripted responses of target / stranger
					for i := 0; i+3 < len(curOp.L); i += 4 {
						who, kind, sel, dt := curOp.L[i], curOp.L[i+1], curOp.L[i+2], curOp.L[i+3]
						if who >= 1 && who <= 3 {
							continue // helpers answer when asked
						}
						at := probeSent + time.Duration(dt)
						if dt == -1 {
							at = deadline - 1000
						} else if dt == -2 {
							at = deadline + 1000
						}
						sq := seqFor(sel, probeSeq)
						if kind == 0 {
							deliver(at, addrOf(who), ackRespMsg, &ackResp{SeqNo: sq}, &c19deliv{seq: sq, from: fmt.Sprint(who)})
						} else {
							deliver(at, addrOf(who), nackRespMsg, &nackResp{SeqNo: sq}, &c19deliv{nack: true, seq: sq, from: fmt.Sprint(who)})
						}
					}
				} else if curOp.Kind == "relay" && relayPing == nil {
					pp := pg
					relayPing = &pp
					relayPingAt = r.T
					if curOp.B != 0 {
						sq := pg.SeqNo
						if curOp.B == 2 {
							sq += 500
						}
						deliver(r.T+time.Duration(curOp.C), addrOf(0), ackRespMsg, &ackResp{SeqNo: sq}, nil)
					}
				}
			case indirectPingMsg:
				var ind indirectPingReq
				if decode(wm.Body, &ind) != nil || curOp == nil || curOp.Kind != "probe" {
					continue
				}
				hi := -1
				for i, h := range helpers {
					if net.JoinHostPort(h.ip.String(), "7946") == r.To {
						hi = i
					}
				}
				if hi < 0 {
					continue
				}
				asked[hi] = true
				askedNack[hi] = ind.Nack
				if ind.SeqNo != probeSeq || ind.Node != "t" {
					askedSeqOK = false
				}
				if ind.Nack != (helpers[hi].pmax >= 4) {
					c.Violate("nack-request-flag", "", "obs", "indirect ping to h%d (PMax %d) has Nack=%v", hi+1, helpers[hi].pmax, ind.Nack)
				}
				deadline := probeSent + m.awareness.ScaleTimeout(conf.ProbeInterval)
				for i := 0; i+3 < len(curOp.L); i += 4 {
					who, kind, sel, dt := curOp.L[i], curOp.L[i+1], curOp.L[i+2], curOp.L[i+3]
					if int(who) != hi+1 {
						continue
					}
					at := probeSent + time.Duration(dt)
					if dt == -1 {
						at = deadline - 2000
					} else if dt == -2 {
						at = deadline + 2000
					}
					if at <= r.T {
						at = r.T + 1000
					}
					sq := seqFor(sel, probeSeq)
					if kind == 0 {
						deliver(at, addrOf(who), ackRespMsg, &ackResp{SeqNo: sq}, &c19deliv{seq: sq, from: fmt.Sprint(who)})
					} else {
						deliver(at, addrOf(who), nackRespMsg, &nackResp{SeqNo: sq}, &c19deliv{nack: true, seq: sq, from: fmt.Sprint(who)})
					}
				}
			}
		}
	}
	// requester puppet for relay episodes
	reqIP := net.IPv4(10, 0, 2, 50).To4()
	req := b.addPuppet("req", reqIP)
	// TCP behaviour of the target
	target.onConn = func(cn net.Conn) {
		op := curOp
		myEp := epoch
		tcpAttempted = true
		defer cn.Close()
		if op == nil || op.A == 3 {
			return
		}
		br := bufio.NewReader(cn)
		t0, err := br.ReadByte()
		if err != nil || messageType(t0) != pingMsg {
			return
		}
		buf := make([]byte, 512)
		n, _ := br.Read(buf)
		var pg ping
		if decode(buf[:n], &pg) != nil {
			return
		}
		if op.A == 0 {
			select {
			case <-sim.quit:
			case <-time.After(time.Hour):
			}
			return
		}
		select {
		case <-sim.quit:
			return
		case <-time.After(time.Duration(op.B)):
		}
		sq := pg.SeqNo
		if op.A == 2 {
			sq += 7
		}
		if _, err := cn.Write(mustEncode(ackRespMsg, &ackResp{SeqNo: sq})); err == nil && op.A == 1 && myEp == epoch {
			tcpRightAck = sim.Now()
		}
	}

	episodes, failures, successes := 0, 0, 0
	for ei := range p.Ops {
		op := &p.Ops[ei]
		// T must be alive (unsuspected) at the start of each episode
		m.nodeLock.Lock()
		if st := m.nodeMap["t"]; st != nil {
			st.State = StateAlive
			delete(m.nodeTimers, "t")
		}
		m.nodeLock.Unlock()
		score0 := m.GetHealthScore()
		epoch++
		switch op.Kind {
		case "probe":
			probeSent, probeSeq = -1, 0
			asked, askedNack, askedSeqOK = map[int]bool{}, map[int]bool{}, true
			delivered = nil
			tcpAttempted, tcpRightAck = false, -1
			pings0 := len(b.n.pingDone)
			curOp = op
			tn := *m.nodeMap["t"]
			done := false
			go func() {
				m.probeNode(&tn)
				done = true
			}()
			scaled := time.Duration(score0+1) * conf.ProbeInterval
			start := sim.Now()
			sim.RunUntil(start+scaled+conf.ProbeInterval, func() bool { return done })
			sim.Run(2 * time.Millisecond)
			sim.Settle()
			curOp = nil
			if !done {
				c.Violate("probe-hung", "", "obs", "episode %d: probeNode did not return within the scaled probe interval + one interval", ei)
				return
			}
			if probeSent < 0 {
				c.Res.HarnessErr = "no ping observed"
				c.Res.OK = false
				return
			}
			if !askedSeqOK {
				c.Violate("indirect-ping-wrong-seq", "", "obs", "episode %d: an indirect ping request did not carry the probe's sequence number/target", ei)
				return
			}
			deadline := probeSent + scaled
			// reference outcome from what was actually delivered
			success := false
			ambiguous := false
			rightNacks := 0
			expectedNacks := 0
			for hi := range asked {
				if askedNack[hi] {
					expectedNacks++
				}
			}
			sort.Slice(delivered, func(i, j int) bool { return delivered[i].t < delivered[j].t })
			for _, d := range delivered {
				if d.seq != probeSeq {
					continue
				}
				if d.t == deadline {
					ambiguous = true
					continue
				}
				if d.t < deadline {
					if d.nack {
						rightNacks++
					} else {
						success = true
					}
				}
			}
			tcpPossible := !conf.DisableTcpPings && tpmax >= 3
			if tcpRightAck >= 0 && tcpRightAck < deadline && tcpPossible {
				success = true
			}
			if tcpAttempted && !tcpPossible {
				c.Violate("tcp-ping-when-disabled", "", "obs", "episode %d: TCP fallback ping although disabled / target PMax %d", ei, tpmax)
				return
			}
			v := b.n.view("t")
			suspected := v.State != StateAlive
			what := fmt.Sprintf("episode %d probe seq=%d sent=%v deadline=%v delivered=%v tcp(attempted=%v rightAck=%v) helpers asked=%v", ei, probeSeq, probeSent, deadline, delivered, tcpAttempted, tcpRightAck, asked)
			if !ambiguous && suspected == success {
				if success {
					c.Violate("answered-probe-suspected", "", "obs", "%s: a matching ack arrived before the deadline but the target was suspected", what)
				} else {
					c.Violate("unanswered-probe-not-suspected", "", "obs", "%s: no ack with the probe's own sequence number arrived before the deadline, yet the target was not suspected (foreign/late ack accepted?)", what)
				}
				return
			}
			score1 := m.GetHealthScore()
			if score1 < 0 || score1 > maxH {
				c.Violate("health-range", "", "obs", "%s: health %d outside [0,%d]", what, score1, maxH)
				return
			}
			if !ambiguous {
				if success {
					successes++
					want := score0 - 1
					if want < 0 {
						want = 0
					}
					if score1 != want {
						c.Violate("health-after-success", "", "obs", "%s: health %d -> %d after a successful probe, expected %d", what, score0, score1, want)
						return
					}
				} else {
					failures++
					if score1 < score0 {
						c.Violate("health-fell-on-failure", "", "obs", "%s: health fell %d -> %d on a failed probe", what, score0, score1)
						return
					}
					// exact Lifeguard arithmetic when unambiguous (no duplicated nacks)
					dupNacks := false
					seenN := map[string]bool{}
					for _, d := range delivered {
						if d.nack && d.seq == probeSeq && d.t < deadline {
							if seenN[d.from] {
								dupNacks = true
							}
							seenN[d.from] = true
						}
					}
					if !dupNacks {
						delta := 1
						if expectedNacks > 0 {
							delta = expectedNacks - rightNacks
							if delta < 0 {
								delta = 0
							}
						}
						want := score0 + delta
						if want > maxH {
							want = maxH
						}
						if score1 != want {
							c.Violate("health-after-failure", "", "obs", "%s: health %d -> %d, reference (expected nacks %d, received %d) gives %d", what, score0, score1, expectedNacks, rightNacks, want)
							return
						}
					}
				}
			}
			// pending-probe records are gone by the deadline
			m.ackLock.Lock()
			nah := len(m.ackHandlers)
			m.ackLock.Unlock()
			if nah != 0 {
				c.Violate("ack-handler-leak", "", "obs", "%s: %d pending-probe records remain after the deadline", what, nah)
				return
			}
			// NotifyPingComplete only for an ack inside the first ProbeTimeout window, with the exact RTT
			if len(b.n.pingDone) > pings0 {
				okRTT := false
				for _, d := range delivered {
					if !d.nack && d.seq == probeSeq && d.t-probeSent <= conf.ProbeTimeout {
						if b.n.pingDone[len(b.n.pingDone)-1] == fmt.Sprintf("t %d ", int64(d.t-probeSent)) {
							okRTT = true
						}
					}
				}
				if !okRTT {
					c.Violate("ping-complete-wrong", "", "obs", "%s: NotifyPingComplete(%s) does not correspond to a matching ack within ProbeTimeout", what, b.n.pingDone[len(b.n.pingDone)-1])
					return
				}
				c.Reach("ping_complete")
			}
			if tcpRightAck >= 0 && success {
				c.Reach("tcp_ack")
			}
			if len(asked) > 0 {
				c.Reach("indirect_used")
			}
			if rightNacks > 0 {
				c.Reach("nack_received")
			}
			episodes++
		case "relay":
			relayPing, relayOut, relayOutT = nil, nil, nil
			req.take()
			curOp = op
			q := uint32(90000 + ei)
			ind := indirectPingReq{SeqNo: q, Target: tip, Port: 7946, Node: "t", Nack: op.A == 1, SourceAddr: reqIP, SourcePort: 7946, SourceNode: "req"}
			t0 := sim.Now()
			tgtAddr := fmt.Sprintf("%s:%d", tip, 7946)
			if op.B == 3 {
				b.n.ep.mu.Lock()
				b.n.ep.failTo = map[string]bool{tgtAddr: true}
				b.n.ep.mu.Unlock()
				c.Reach("relay_send_error")
			}
			b.n.ep.deliverPacket(mustEncode(indirectPingMsg, &ind), &net.UDPAddr{IP: reqIP, Port: 7946})
			sim.Run(2*conf.ProbeTimeout + 10*time.Millisecond)
			sim.Settle()
			curOp = nil
			for _, pk := range req.take() {
				ms, err := decodePacket(conf, pk.Buf)
				if err != nil {
					continue
				}
				for _, wm := range ms {
					relayOut = append(relayOut, wm)
					relayOutT = append(relayOutT, pk.T)
				}
			}
			what := fmt.Sprintf("episode %d relay(nack=%v, target ack kind %d after %v)", ei, op.A == 1, op.B, time.Duration(op.C))
			if op.B == 3 {
				b.n.ep.mu.Lock()
				b.n.ep.failTo = nil
				b.n.ep.mu.Unlock()
				if relayPing == nil {
					relayPing = &ping{Node: "t"} // the send was refused before it reached the wire
				}
			}
			if relayPing == nil {
				c.Violate("relay-no-ping", "", "obs", "%s: node did not ping the target", what)
				return
			}
			if relayPing.SeqNo == q {
				c.Reach("relay_seq_equal_requester") // allowed only by coincidence; counters are independent
			}
			if relayPing.Node != "t" {
				c.Violate("relay-wrong-target", "", "obs", "%s: ping names %q", what, relayPing.Node)
				return
			}
			ackInTime := op.B == 1 && time.Duration(op.C) < conf.ProbeTimeout-2000
			ackLate := op.B == 1 && time.Duration(op.C) > conf.ProbeTimeout+2000
			edge := op.B == 1 && !ackInTime && !ackLate
			acks, nacks := 0, 0
			for _, wm := range relayOut {
				switch wm.Type {
				case ackRespMsg:
					var a ackResp
					if decode(wm.Body, &a) == nil {
						if a.SeqNo != q {
							c.Violate("relay-ack-wrong-seq", "", "obs", "%s: relayed ack carries %d, requester's number is %d", what, a.SeqNo, q)
							return
						}
						acks++
					}
				case nackRespMsg:
					var a nackResp
					if decode(wm.Body, &a) == nil {
						if a.SeqNo != q {
							c.Violate("relay-nack-wrong-seq", "", "obs", "%s: nack carries %d, requester's number is %d", what, a.SeqNo, q)
							return
						}
						nacks++
					}
				}
			}
			if !edge {
				wantAcks, wantNacks := 0, 0
				if ackInTime {
					wantAcks = 1
				} else if op.A == 1 {
					wantNacks = 1
				}
				if acks != wantAcks || nacks != wantNacks {
					c.Violate("relay-outcome", "", "obs", "%s: requester received %d acks and %d nacks, expected %d and %d (ping seq %d sent at %v)", what, acks, nacks, wantAcks, wantNacks, relayPing.SeqNo, relayPingAt-t0)
					return
				}
			} else if acks+nacks > 1 || (op.A == 0 && nacks > 0) {
				c.Violate("relay-outcome", "", "obs", "%s: requester received %d acks and %d nacks", what, acks, nacks)
				return
			}
			if m.GetHealthScore() != score0 {
				c.Violate("health-changed-by-relay", "", "obs", "%s: health %d -> %d", what, score0, m.GetHealthScore())
				return
			}
			m.ackLock.Lock()
			nah := len(m.ackHandlers)
			m.ackLock.Unlock()
			if nah != 0 {
				c.Violate("ack-handler-leak", "", "obs", "%s: %d pending records remain after 2x ProbeTimeout", what, nah)
				return
			}
			if nacks > 0 {
				c.Reach("nack_sent")
			}
			if acks > 0 {
				c.Reach("ack_relayed")
			}
			episodes++
		}
	}
	c.Res.Nontrivial = episodes > 0
	c.Stat("episodes", int64(episodes))
	c.Stat("probe_failures", int64(failures))
	c.Stat("probe_successes", int64(successes))
	c.Res.FP = fmt.Sprintf("%016x", hash64(hashOps(p.Ops), uint64(p.Cfg.IndirectChecks), uint64(nh), uint64(p.Cfg.AwarenessMax), uint64(p.Cfg.ProbeTimeoutMs)))
	c.Res.Sample = map[string]any{"episodes": episodes, "helpers": nh, "indirect": p.Cfg.IndirectChecks}
}
