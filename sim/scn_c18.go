package memberlist

// C18 — the CIDR allowlist is enforced on every admission path.

import (
	"bytes"
	"fmt"
	"net"
	"time"
)

func init() {
	register(&Scenario{Name: "C18", Gen: genC18, Exec: execC18})
}

var c18Lists = [][]string{
	{"10.0.0.0/24"},
	{"10.0.0.0/24", "fd00::/8"},
	{"10.0.0.1/32", "10.0.0.50/32", "10.0.0.60/32"},
	{"10.0.0.0/16", "172.16.0.0/12"},
	{}, // empty non-nil: treated as "no allowlist" by code and tests
	nil,
}

// address catalogue: index -> bytes
func c18Addr(i int64) []byte {
	switch i {
	case 0:
		return ip4(10, 0, 0, 50) // inside all lists
	case 1:
		return ip4(192, 168, 1, 5) // outside
	case 2:
		return net.ParseIP("::ffff:10.0.0.50") // mapped inside (16 bytes)
	case 3:
		return net.ParseIP("::ffff:192.168.1.5") // mapped outside
	case 4:
		return []byte{}
	case 5:
		return []byte{10, 0, 0}
	case 6:
		return []byte{10, 0, 0, 50, 1}
	case 7:
		return net.ParseIP("fd00::1") // inside list 1 only
	case 8:
		return net.ParseIP("2001:db8::1") // outside
	case 9:
		return ip4(10, 0, 1, 7) // inside only 10.0.0.0/16
	case 10:
		return ip4(10, 0, 0, 60)
	}
	return ip4(10, 0, 0, 50)
}

// independent containment check on the canonical 4-/16-byte form
func c18Inside(ip []byte, nets []net.IPNet) bool {
	canon := func(b []byte) []byte {
		if len(b) == 16 {
			allz := true
			for _, x := range b[:10] {
				if x != 0 {
					allz = false
				}
			}
			if allz && b[10] == 0xff && b[11] == 0xff {
				return b[12:]
			}
		}
		return b
	}
	ip = canon(ip)
	if len(ip) != 4 && len(ip) != 16 {
		return false
	}
	for _, n := range nets {
		base := canon(n.IP)
		mask := n.Mask
		if len(mask) == 16 && len(base) == 4 {
			mask = mask[12:]
		}
		if len(base) != len(ip) || len(mask) != len(ip) {
			continue
		}
		ok := true
		for i := range ip {
			if ip[i]&mask[i] != base[i]&mask[i] {
				ok = false
			}
		}
		if ok {
			return true
		}
	}
	return false
}

// op: Kind alive|suspect|dead|left|wait ; A inc delta vs held ; B addr idx ; C source addr idx (for udp) ;
//     Node carrier: 0 udp 1 compound 2 compressed 3 piggyback-on-ping 4 pushpull stream(join) 5 pushpull stream(anti-entropy) 6 direct merge
func genC18(c *Ctx) *Plan {
	r := c.R
	p := &Plan{Cfg: benchCfg(r), P: map[string]int64{}, YieldOff: []string{"*"}}
	p.Cfg.ReclaimMs = r.pick(0, 200)
	p.Cfg.GossipToDeadMs = 3600_000
	p.P["list"] = int64(r.pick(0, 0, 1, 1, 2, 3, 4, 5))
	p.P["prior"] = int64(r.intn(5)) // absent alive suspect dead left
	n := r.rangeI(1, 10)
	for i := 0; i < n; i++ {
		k := []string{"alive", "alive", "alive", "alive", "suspect", "dead", "left", "wait"}[r.intn(8)]
		op := Op{Kind: k, A: int64(r.pick(0, 1, 1, 2)), B: int64(r.intn(11)), C: int64(r.pick(0, 0, 1, 3, 8, 10)), Node: r.intn(7)}
		if k == "wait" {
			op.A = int64(r.pick(1, 300, 1000))
		}
		p.Ops = append(p.Ops, op)
	}
	return p
}

func execC18(c *Ctx) {
	p := c.Plan
	listIdx := int(p.param("list", 0))
	var nets []net.IPNet
	if c18Lists[listIdx] != nil {
		var err error
		nets, err = ParseCIDRs(c18Lists[listIdx])
		if err != nil {
			panic(err)
		}
	}
	configured := len(nets) > 0
	b := newBench(c, p.Cfg, false, func(conf *Config) { conf.CIDRsAllowed = nets })
	defer b.finish()
	m := b.n.m
	pup := b.addPuppet("pp", ip4(10, 0, 0, 60))
	// prior state of x at an inside address
	prior := int(p.param("prior", 1))
	if prior > 0 {
		m.aliveNode(&alive{Incarnation: 5, Node: "x", Addr: ip4(10, 0, 0, 50), Port: 7946, Meta: []byte("m"), Vsn: c01Vsn(0)}, nil, false)
		switch prior {
		case 2:
			m.suspectNode(&suspect{Incarnation: 5, Node: "x", From: "q"})
		case 3:
			m.deadNode(&dead{Incarnation: 5, Node: "x", From: "q"})
		case 4:
			m.deadNode(&dead{Incarnation: 5, Node: "x", From: "x"})
		}
	}
	b.sim.Run(300 * time.Millisecond)
	checkAll := func(step string) bool {
		if !configured {
			return true
		}
		for _, mm := range m.Members() {
			if !c18Inside(mm.Addr, nets) {
				c.Violate("disallowed-member-listed", "", "obs", "after %s: Members() lists %s at %v which is outside every allowed network %v", step, mm.Name, []byte(mm.Addr), c18Lists[listIdx])
				return false
			}
		}
		m.nodeLock.RLock()
		for name, st := range m.nodeMap {
			if !c18Inside(st.Addr, nets) {
				m.nodeLock.RUnlock()
				c.Violate("disallowed-address-stored", "", "obs", "after %s: record of %s holds address %v outside every allowed network %v", step, name, []byte(st.Addr), c18Lists[listIdx])
				return false
			}
		}
		m.nodeLock.RUnlock()
		b.n.mu.Lock()
		defer b.n.mu.Unlock()
		for _, e := range b.n.events {
			if !c18Inside(e.IP, nets) {
				c.Violate("disallowed-address-in-event", "", "obs", "after %s: %s event for %s carries address %s outside every allowed network", step, e.Kind, e.Name, e.Addr)
				return false
			}
		}
		return true
	}
	if !checkAll("setup") {
		return
	}
	rejected, accepted := 0, 0
	for i, op := range p.Ops {
		if op.Kind == "wait" {
			b.sim.Run(time.Duration(op.A) * time.Millisecond)
			continue
		}
		held := b.n.view("x")
		inc := held.Inc + uint32(op.A)
		if !held.Present {
			inc = uint32(1 + op.A)
		}
		addr := c18Addr(op.B)
		src := c18Addr(op.C)
		if len(src) != 4 && len(src) != 16 {
			src = ip4(10, 0, 0, 60)
		}
		from := &net.UDPAddr{IP: src, Port: 7946}
		digBefore := b.n.digest()
		evBefore := len(b.n.events)
		carrier := op.Node
		var mt messageType
		var body any
		var st NodeStateType
		switch op.Kind {
		case "alive":
			mt, body, st = aliveMsg, &alive{Incarnation: inc, Node: "x", Addr: addr, Port: 7946, Meta: []byte("m2"), Vsn: c01Vsn(0)}, StateAlive
		case "suspect":
			mt, body, st = suspectMsg, &suspect{Incarnation: inc, Node: "x", From: "q"}, StateSuspect
		case "dead":
			mt, body, st = deadMsg, &dead{Incarnation: inc, Node: "x", From: "q"}, StateDead
		case "left":
			mt, body, st = deadMsg, &dead{Incarnation: inc, Node: "x", From: "x"}, StateLeft
		}
		what := fmt.Sprintf("step #%d %s inc=%d addr=%v src=%s carrier=%d (held %s, list %v)", i, op.Kind, inc, addr, from.IP, carrier, held, c18Lists[listIdx])
		switch carrier {
		case 0, 1, 2, 3:
			raw := mustEncode(mt, body)
			switch carrier {
			case 1:
				raw = makeCompoundMessage([][]byte{mustEncode(nackRespMsg, &nackResp{SeqNo: 5}), raw}).Bytes()
			case 3:
				raw = makeCompoundMessage([][]byte{mustEncode(pingMsg, &ping{SeqNo: uint32(100 + i), Node: "obs"}), raw}).Bytes()
			}
			b.inject(b.wrapPacket(raw, carrier == 2, false), from)
		case 4, 5:
			nodes := []pushNodeState{{Name: "x", Addr: addr, Port: 7946, Meta: []byte("m2"), Incarnation: inc, State: st, Vsn: c01Vsn(0)},
				{Name: "pp", Addr: ip4(10, 0, 0, 60), Port: 7946, Incarnation: 1, State: StateAlive, Vsn: c01Vsn(0)}}
			data := wrapStreamFor(b.n, buildPushPull(carrier == 4, nodes, nil, -1, -1), true)
			done := false
			go func() {
				_, _ = puppetStream(b.sim, pup.ep, b.n, data, false, 500*time.Millisecond)
				done = true
			}()
			b.sim.RunUntil(b.sim.Now()+2*time.Second, func() bool { return done })
			b.sim.Settle()
		case 6:
			m.mergeState([]pushNodeState{{Name: "x", Addr: addr, Port: 7946, Meta: []byte("m2"), Incarnation: inc, State: st, Vsn: c01Vsn(0)}})
			b.sim.Settle()
		}
		if !checkAll(what) {
			return
		}
		if configured && op.Kind == "alive" && carrier <= 3 && !c18Inside(ipBytes(from.IP), nets) {
			// alive gossip from a disallowed source is ignored entirely
			if d := b.n.digest(); d != digBefore || len(b.n.events) != evBefore {
				c.Violate("alive-from-disallowed-source-had-effect", "", "obs", "%s: digest changed", what)
				return
			}
			rejected++
			c.Reach("disallowed_source")
		} else if configured && op.Kind == "alive" && !c18Inside(addr, nets) {
			after := b.n.view("x")
			// (a suspicion timer may legitimately expire while a stream is in
			// progress, so only what the claim itself could cause is compared)
			adopted := after.Addr != held.Addr || after.Port != held.Port || after.Meta != held.Meta ||
				(after.State == StateAlive && after.Inc == inc && !(held.State == StateAlive && held.Inc == inc)) || after.Present != held.Present
			if adopted {
				c.Violate("disallowed-claim-had-effect", "", "obs", "%s: record %s -> %s", what, held, after)
				return
			}
			rejected++
			c.Reach("disallowed_inner_addr")
		} else if op.Kind == "alive" {
			accepted++
		}
		if !configured && op.Kind == "alive" {
			c.Reach("no_allowlist")
		}
	}
	c.Res.Nontrivial = configured && rejected > 0
	c.Stat("rejected", int64(rejected))
	c.Stat("alive_considered", int64(accepted))
	c.Res.FP = fmt.Sprintf("%016x", hash64(hashOps(p.Ops), uint64(listIdx), uint64(prior)))
	c.Res.Sample = map[string]any{"list": c18Lists[listIdx], "prior": prior, "ops": len(p.Ops)}
}

func ipBytes(ip net.IP) []byte {
	if v4 := ip.To4(); v4 != nil && !bytes.Equal(ip, v4) && len(ip) == 16 {
		return []byte(ip)
	}
	return []byte(ip)
}

// ---------------------------------------------------------------- C18C: two subnets, one-sided allowlist

func init() {
	register(&Scenario{Name: "C18C", Gen: genC18C, Exec: execC18C})
}

func genC18C(c *Ctx) *Plan {
	r := c.R
	p := &Plan{N: r.rangeI(3, 7), Cfg: genCfg(r), P: map[string]int64{}}
	p.Cfg.HandoffDepth = 1024
	n := p.N
	split := r.rangeI(1, n-1) // nodes < split live in 10.0.0.0/24 and enforce the allowlist
	p.P["split"] = int64(split)
	p.Net.MinDelay = 1000
	p.Net.MaxDelay = int64(ms(p.Cfg.ProbeTimeoutMs)) / 8
	t := int64(1000)
	for i := 0; i < n; i++ {
		t += 1_000_000 + r.i64n(150_000_000)
		p.Ops = append(p.Ops, Op{At: t, Kind: "create", Node: i})
	}
	base := t + 500_000_000
	dur := int64(time.Duration(r.rangeI(8, 20)) * time.Second)
	// joins in every direction: inside->inside, outside->outside, outside->inside, inside->outside
	for i := 0; i < r.rangeI(n, 3*n); i++ {
		a := r.intn(n)
		b := r.intn(n)
		if a == b {
			continue
		}
		p.Ops = append(p.Ops, Op{At: base + r.i64n(dur), Kind: "join", Node: a, L: []int64{int64(b)}})
	}
	for i := 0; i < r.rangeI(0, 6); i++ {
		p.Ops = append(p.Ops, Op{At: base + r.i64n(dur), Kind: "update", Node: r.intn(n), A: 500, S: fmt.Sprintf("meta-%d", i)})
	}
	p.P["end"] = base + dur + int64(3*time.Second)
	p.YieldOff = genYieldOff(r)
	return p
}

type c18cmon struct {
	split int
	nets  []net.IPNet
}

func (m *c18cmon) step(cx *clusterRun) {
	for _, n := range cx.cl.nodes {
		if n.m == nil || n.idx >= m.split {
			continue
		}
		n.m.nodeLock.RLock()
		for name, st := range n.m.nodeMap {
			if !c18Inside(st.Addr, m.nets) {
				n.m.nodeLock.RUnlock()
				cx.c.Violate("disallowed-address-stored", "", n.name, "%s (allowlist 10.0.0.0/24) holds a record of %s at %v", n.name, name, net.IP(st.Addr))
				return
			}
		}
		n.m.nodeLock.RUnlock()
		n.mu.Lock()
		for _, e := range n.events {
			if !c18Inside(e.IP, m.nets) {
				n.mu.Unlock()
				cx.c.Violate("disallowed-address-in-event", "", n.name, "%s delivered a %s event for %s at %v", n.name, e.Kind, e.Name, net.IP(e.IP))
				return
			}
		}
		n.mu.Unlock()
	}
}
func (m *c18cmon) finish(cx *clusterRun) {}

func execC18C(c *Ctx) {
	p := c.Plan
	split := int(p.param("split", 1))
	nets, _ := ParseCIDRs([]string{"10.0.0.0/24"})
	mon := &c18cmon{split: split, nets: nets}
	cx := startClusterRun(c, mon, newEventMon(), &healthMon{})
	// outside nodes get addresses in 10.9.0.0/24
	for _, n := range cx.cl.nodes {
		if n.idx >= split {
			n.ip = ip4(10, 9, 0, byte(1+n.idx))
		}
	}
	cx.customOp = func(rec *opRec) bool {
		op := rec.Op
		n := cx.node(op.Node)
		if op.Kind == "create" && n != nil && !n.created {
			if err := cx.cl.create(n, func(conf *Config) {
				if n.idx < split {
					conf.CIDRsAllowed = nets
				}
			}); err != nil {
				rec.Err = err.Error()
			}
			return true
		}
		return false
	}
	end := time.Duration(p.param("end", int64(20*time.Second)))
	c.Sim.RunUntil(end, func() bool { return c.Failed() })
	crossTried := 0
	for _, rec := range cx.ops {
		if rec.Op.Kind == "join" && len(rec.Op.L) > 0 && (rec.Op.Node < split) != (int(rec.Op.L[0]) < split) {
			crossTried++
		}
	}
	c.Res.Nontrivial = crossTried > 0
	c.Stat("cross_subnet_joins", int64(crossTried))
	c.Res.Sample = map[string]any{"n": p.N, "inside_nodes": split, "cross_joins": crossTried}
	cx.finish()
}
