package memberlist

// C13 — hostile bytes never crash, hang, or bypass the documented resource caps.

import (
	"sync/atomic"
	"bytes"
	"compress/lzw"
	"fmt"
	"net"
	"testing/synctest"
	"time"

	"github.com/hashicorp/go-msgpack/v2/codec"
)

func init() {
	register(&Scenario{Name: "C13", Gen: genC13, Exec: execC13})
}

func genC13(c *Ctx) *Plan {
	r := c.R
	cp := benchCfg(r)
	cp.GossipToDeadMs = 3600_000
	cp.TCPTimeoutMs = r.pick(300, 500)
	cp.Encrypt = r.pick(0, 0, 16, 32)
	cp.ProtocolVersion = r.pick(1, 2, 5)
	cp.Label = []string{"", "", "lbl"}[r.intn(3)]
	cp.Compression = r.chance(0.5)
	cp.VerifyIncoming = r.chance(0.7)
	cp.HandoffDepth = r.pick(2, 4, 8, 1024)
	p := &Plan{Cfg: cp, P: map[string]int64{}, YieldOff: []string{"*"}}
	p.P["mode"] = int64(r.pick(0, 1, 1, 2, 2, 2, 3, 3, 3, 4, 4, 5, 6))
	if c.Tier == "thorough" && r.chance(0.02) {
		p.P["mode"] = 7 // decompression bomb (expensive)
	}
	p.P["skiplabel"] = int64(r.pick(0, 0, 0, 1))
	p.P["msg"] = int64(r.intn(64))
	p.P["n"] = int64(r.rangeI(20, 120))
	if r.chance(0.08) {
		p.P["mode"] = 8 // replay storm against an outstanding probe
		p.Cfg.IndirectChecks = r.rangeI(0, 3)
	}
	return p
}

// decodesAtAll reports whether at least one part of the packet decodes into a
// well-formed protocol message under R's configuration (harness-side decoder).
func decodesAtAll(conf *Config, buf []byte) bool {
	b, label, err := RemoveLabelHeaderFromPacket(buf)
	if err != nil {
		return false
	}
	if conf.SkipInboundLabelCheck {
		if label != "" {
			return false
		}
		label = conf.Label
	}
	if label != conf.Label {
		return false
	}
	if conf.EncryptionEnabled() {
		plain, err := decryptPayload(conf.Keyring.GetKeys(), append([]byte(nil), b...), []byte(label))
		if err != nil {
			if conf.GossipVerifyIncoming {
				return false
			}
			plain = b
		}
		b = plain
	}
	if len(b) >= 5 && messageType(b[0]) == hasCrcMsg {
		if crc32sum(b[5:]) != uint32(b[1])<<24|uint32(b[2])<<16|uint32(b[3])<<8|uint32(b[4]) {
			return false
		}
		b = b[5:]
	}
	any := false
	var walk func(x []byte, d int)
	walk = func(x []byte, d int) {
		if len(x) < 1 || d > 64 {
			return
		}
		switch messageType(x[0]) {
		case compoundMsg:
			_, parts, err := decodeCompoundMessage(x[1:])
			if err != nil {
				return
			}
			for _, p := range parts {
				walk(p, d+1)
			}
		case compressMsg:
			if pl, err := decompressPayload(x[1:]); err == nil {
				walk(pl, d+1)
			}
		case pingMsg, indirectPingMsg, ackRespMsg, nackRespMsg, suspectMsg, aliveMsg, deadMsg, userMsg:
			any = true // conservatively: may be acted on
		}
	}
	walk(b, 0)
	return any
}

func execC13(c *Ctx) {
	p := c.Plan
	mode := int(p.param("mode", 0))
	skip := p.param("skiplabel", 0) == 1
	l := newLab(c, p.Cfg, func(conf *Config, who string) {
		if who == "rcv" {
			conf.SkipInboundLabelCheck = skip
		}
	})
	R := l.R
	m := R.m
	conf := R.conf
	sim := l.sim
	r := newRng(hash64(c.Seed, 0xc13))
	from := &net.UDPAddr{IP: ip4(10, 0, 0, 9), Port: 7946}
	// invariants at every step: bounded queues, bounded concurrent push/pulls
	maxHQ, maxPP := 0, uint32(0)
	sim.onStep = func() {
		m.msgQueueLock.Lock()
		h, lo := m.highPriorityMsgQueue.Len(), m.lowPriorityMsgQueue.Len()
		m.msgQueueLock.Unlock()
		if h > maxHQ {
			maxHQ = h
		}
		if lo > maxHQ {
			maxHQ = lo
		}
		if h > conf.HandoffQueueDepth || lo > conf.HandoffQueueDepth {
			c.Violate("handoff-queue-over-depth", "", "rcv", "hand-off queue length %d/%d exceeds HandoffQueueDepth %d", h, lo, conf.HandoffQueueDepth)
		}
		if pp := m.pushPullReq.Load(); pp > maxPP && pp < 1<<31 {
			maxPP = pp
		}
	}
	injected, undecodable := 0, 0
	injectPkt := func(buf []byte, desc string) bool {
		injected++
		und := !decodesAtAll(conf, buf)
		mk := l.mark()
		R.ep.deliverPacket(append([]byte(nil), buf...), from)
		sim.Settle()
		if und {
			undecodable++
			rc := l.since(mk)
			if rc.Changed || len(rc.Msgs) > 0 || len(rc.Events) > 0 {
				c.Violate("undecodable-input-had-effect", "", "rcv", "%s (%d bytes %x...) does not decode under the receiver's configuration but changed membership / reached the delegate: %s", desc, len(buf), buf[:min(len(buf), 24)], rc.key())
				return false
			}
		}
		return !c.Failed()
	}
	// a stream injection that may cut or stall; returns bytes the receiver consumed
	injectStr := func(data []byte, cutClose bool, stall bool, desc string) (consumed int64, closedAfter time.Duration, ok bool) {
		injected++
		cn, err := l.att.ep.DialAddressTimeout(Address{Addr: R.ep.addr, Name: "rcv"}, time.Second)
		if err != nil {
			return 0, 0, true
		}
		sc := cn.(*simConn)
		t0 := sim.Now()
		_, _ = cn.Write(data)
		if cutClose {
			_ = cn.Close()
		}
		_ = stall
		// wait until the server side closed its end (or TCPTimeout + slack)
		limit := conf.TCPTimeout + 200*time.Millisecond
		sim.RunUntil(sim.Now()+limit, func() bool { return sc.peer.isClosed() })
		closed := sc.peer.isClosed()
		closedAfter = sim.Now() - t0
		sc.out.mu.Lock()
		consumed = sc.out.consumed
		sc.out.mu.Unlock()
		_ = cn.Close()
		sim.Settle()
		if !closed {
			c.Violate("stream-handler-hung", "", "rcv", "%s: the receiver still holds the connection open %v after it was opened (TCPTimeout %v)", desc, closedAfter, conf.TCPTimeout)
			return consumed, closedAfter, false
		}
		return consumed, closedAfter, !c.Failed()
	}
	// packets as the receiver expects them: with SkipInboundLabelCheck an outer
	// layer has already stripped the label header (the label stays in the AAD)
	wrapIn := func(raw []byte) []byte {
		b := wrapPacketFor(R, raw, false, false)
		if skip && conf.Label != "" {
			b = b[2+len(conf.Label):]
		}
		return b
	}
	caps := l.capture()
	var pkts, strs []capMsg
	for _, cm := range caps {
		if cm.Stream {
			strs = append(strs, cm)
		} else {
			pkts = append(pkts, cm)
		}
	}
	n := int(p.param("n", 50))
	digest0 := R.digest()
	switch mode {
	case 0: // random bytes
		for i := 0; i < n; i++ {
			b := r.bytes(r.pick(0, 1, 2, 3, 5, 8, 30, 100, 1500))
			if r.chance(0.5) && len(b) > 0 {
				b[0] = byte(r.intn(16)) // plausible type byte
			}
			if r.chance(0.2) {
				b = append([]byte{byte(hasLabelMsg), byte(r.intn(8))}, b...)
			}
			if r.chance(0.5) {
				if !injectPkt(b, "random packet") {
					break
				}
			} else if _, _, ok := injectStr(b, r.chance(0.5), false, "random stream"); !ok {
				break
			}
		}
	case 1: // grammar-aware hostile messages
		for i := 0; i < n; i++ {
			var raw []byte
			switch r.intn(9) {
			case 0: // compound with inconsistent counts/lengths
				raw = []byte{byte(compoundMsg), byte(r.intn(256))}
				for k := 0; k < r.intn(6); k++ {
					raw = append(raw, byte(r.intn(2)), byte(r.intn(256)))
				}
				raw = append(raw, r.bytes(r.intn(40))...)
			case 1: // deep nesting compound-in-compound
				inner := mustEncode(nackRespMsg, &nackResp{SeqNo: 1})
				for d := 0; d < r.pick(2, 10, 200, 2000); d++ {
					inner = makeCompoundMessage([][]byte{inner}).Bytes()
					if len(inner) > 60000 {
						break
					}
				}
				raw = inner
			case 2: // compress wrapping garbage / itself
				cb, _ := compressPayload(r.bytes(r.intn(50)), false)
				raw = cb.Bytes()
				if r.chance(0.5) {
					cb2, _ := compressPayload(raw, false)
					raw = cb2.Bytes()
				}
			case 3: // alive with odd fields
				raw = mustEncode(aliveMsg, &alive{Incarnation: uint32(r.u64()), Node: string(r.bytes(r.pick(0, 1, 300))), Addr: r.bytes(r.pick(0, 3, 4, 16, 17)), Port: uint16(r.u64()), Meta: r.bytes(r.pick(0, 512, 513, 2000)), Vsn: r.bytes(r.pick(0, 2, 3, 5, 6, 7))})
			case 4: // msgpack type confusion: a map where a struct is expected etc.
				raw = append([]byte{byte(r.pick(int(pingMsg), int(aliveMsg), int(suspectMsg), int(ackRespMsg), int(indirectPingMsg)))}, r.bytes(r.intn(30))...)
			case 5: // crc header with wrong / right crc over garbage
				body := r.bytes(r.intn(40))
				raw = addCRC(body)
				if r.chance(0.5) {
					raw[1] ^= 0xff
				}
			case 6: // indirect ping toward odd targets
				raw = mustEncode(indirectPingMsg, &indirectPingReq{SeqNo: uint32(r.u64()), Target: r.bytes(r.pick(0, 4, 16, 5)), Port: uint16(r.u64()), Node: "z", Nack: r.chance(0.5), SourceAddr: r.bytes(r.pick(0, 4, 7)), SourcePort: uint16(r.u64()), SourceNode: "q"})
			case 7: // unknown / out-of-range message types incl. stream-only ones on the packet path
				raw = append([]byte{byte(r.pick(int(pushPullMsg), int(encryptMsg), int(errMsg), int(hasCrcMsg), 14, 99, 243, 245, 255))}, r.bytes(r.intn(20))...)
			case 8: // user message sizes
				raw = append([]byte{byte(userMsg)}, r.bytes(r.pick(0, 1, 1400, 65000))...)
			}
			buf := wrapIn(raw)
			if r.chance(0.3) {
				buf = raw // unsealed / unlabelled
			}
			if !injectPkt(buf, fmt.Sprintf("grammar-aware packet kind %d", raw[0])) {
				break
			}
		}
	case 2: // mutations of genuine packets
		if len(pkts) == 0 {
			break
		}
		g := pkts[int(p.param("msg", 0))%len(pkts)]
		// every truncation
		for k := 0; k <= len(g.Buf) && !c.Failed(); k++ {
			if !injectPkt(g.Buf[:k], fmt.Sprintf("truncation of genuine %s to %d bytes", g.Kind, k)) {
				break
			}
		}
		// every single-byte overwrite with 3 values; every bit flip of the first 12 bytes
		for i := 0; i < len(g.Buf) && !c.Failed(); i++ {
			for _, v := range []byte{0, 0xff, byte(r.u64())} {
				b := append([]byte(nil), g.Buf...)
				b[i] = v
				if !injectPkt(b, fmt.Sprintf("byte %d of genuine %s set to %#x", i, g.Kind, v)) {
					break
				}
			}
			if i < 12 {
				for bit := 0; bit < 8; bit++ {
					b := append([]byte(nil), g.Buf...)
					b[i] ^= 1 << bit
					if !injectPkt(b, fmt.Sprintf("bit %d of byte %d of genuine %s flipped", bit, i, g.Kind)) {
						break
					}
				}
			}
		}
		c.Reach("pkt_mutations_" + g.Kind)
	case 8: // replay storm: many copies of a well-formed nack / ack for a probe that is still outstanding
		m.nodeLock.RLock()
		zs, okz := m.nodeMap["z"]
		var st nodeState
		if okz {
			st = *zs
		}
		m.nodeLock.RUnlock()
		if !okz {
			break
		}
		probeDone := false
		go func() { m.probeNode(&st); probeDone = true }()
		synctest.Wait() // the probe goroutine now waits for its ack
		seq := atomic.LoadUint32(&m.sequenceNum)
		k := conf.IndirectChecks + 2 + r.intn(30)
		for i := 0; i < k && !c.Failed(); i++ {
			var raw []byte
			what := "nack"
			switch r.intn(6) {
			case 0:
				raw = mustEncode(nackRespMsg, &nackResp{SeqNo: seq + 1})
				what = "nack(foreign seq)"
			case 1:
				raw = mustEncode(ackRespMsg, &ackResp{SeqNo: seq + 1000})
				what = "ack(foreign seq)"
			default:
				raw = mustEncode(nackRespMsg, &nackResp{SeqNo: seq})
			}
			if !injectPkt(wrapIn(raw), fmt.Sprintf("copy %d/%d of a well-formed %s for the outstanding probe seq %d", i+1, k, what, seq)) {
				break
			}
		}
		// the probe must still end by its deadline (plus the TCP fallback allowance)
		sim.RunUntil(sim.Now()+m.awareness.ScaleTimeout(conf.ProbeInterval)+conf.TCPTimeout+conf.ProbeTimeout+100*time.Millisecond, func() bool { return probeDone })
		if !probeDone && !c.Failed() {
			c.Violate("probe-hung", "", "rcv", "a probe (seq %d) that received %d replayed nacks/acks has not ended %v after it began", seq, k, m.awareness.ScaleTimeout(conf.ProbeInterval)+conf.TCPTimeout+conf.ProbeTimeout)
		}
		c.Reach("replay_storm_on_outstanding_probe")
	case 3: // genuine streams cut / stalled at every offset, plus byte mutations
		if len(strs) == 0 {
			break
		}
		g := strs[int(p.param("msg", 0))%len(strs)]
		for k := 0; k <= len(g.Buf) && !c.Failed(); k++ {
			// cut (close) after k bytes, and stall (keep open, send nothing more) after k bytes
			if _, _, ok := injectStr(g.Buf[:k], true, false, fmt.Sprintf("genuine %s stream cut after %d/%d bytes", g.Kind, k, len(g.Buf))); !ok {
				break
			}
			if k%3 == 0 {
				if _, d, ok := injectStr(g.Buf[:k], false, true, fmt.Sprintf("genuine %s stream stalled after %d/%d bytes", g.Kind, k, len(g.Buf))); !ok {
					break
				} else if k < len(g.Buf) {
					_ = d
				}
			}
		}
		for i := 0; i < len(g.Buf) && i < 80 && !c.Failed(); i++ {
			b := append([]byte(nil), g.Buf...)
			b[i] ^= byte(1 << r.intn(8))
			if _, _, ok := injectStr(b, false, false, fmt.Sprintf("genuine %s stream with byte %d mutated", g.Kind, i)); !ok {
				break
			}
		}
		c.Reach("stream_cuts_" + g.Kind)
	case 4: // declared sizes beyond the documented caps, followed by a lot of data
		filler := bytes.Repeat([]byte{0xc0}, 200_000)
		type capCase struct {
			name string
			body []byte
			raw  bool // already a complete stream (no wrap)
		}
		var cases []capCase
		cases = append(cases, capCase{"Nodes above maxPushStateNodes", append(buildPushPull(true, nil, nil, maxPushStateNodes+1, 0), filler...), false})
		cases = append(cases, capCase{"negative Nodes", append(buildPushPull(true, nil, nil, -5, 0), filler...), false})
		cases = append(cases, capCase{"UserStateLen above maxPushStateBytes", append(buildPushPull(false, nil, nil, 0, maxPushStateBytes+1), filler...), false})
		cases = append(cases, capCase{"negative UserStateLen", append(buildPushPull(false, nil, nil, 0, -1), filler...), false})
		cases = append(cases, capCase{"UserMsgLen above maxUserMsgBytes", append(buildUserStream(nil, maxUserMsgBytes+1), filler...), false})
		cases = append(cases, capCase{"negative UserMsgLen", append(buildUserStream(nil, -7), filler...), false})
		if conf.EncryptionEnabled() {
			hdr := []byte{byte(encryptMsg), 0x7f, 0xff, 0xff, 0xff}
			pre := []byte{}
			if conf.Label != "" && !skip {
				pre = makeLabelHeader(conf.Label, nil)
			}
			cases = append(cases, capCase{"encrypted length prefix above maxPushStateBytes", append(append(pre, hdr...), filler...), true})
			hdr2 := []byte{byte(encryptMsg), 0x01, 0x40, 0x00, 0x01}
			cases = append(cases, capCase{"encrypted length prefix just above the cap", append(append(append([]byte(nil), pre...), hdr2...), filler...), true})
		}
		for _, cc := range cases {
			data := cc.body
			if !cc.raw {
				comp := conf.EnableCompression
				conf.EnableCompression = false // keep the oversized declaration at a known offset
				data = wrapStreamFor(R, cc.body, !skip)
				conf.EnableCompression = comp
			}
			mk := l.mark()
			consumed, d, ok := injectStr(data, false, false, cc.name)
			if !ok {
				break
			}
			rc := l.since(mk)
			// refused before the data is buffered: at most the bytes up to the size
			// field plus read-ahead buffers (label peek 4096 + stream reader 4096)
			sealed := conf.EncryptionEnabled() && conf.GossipVerifyOutgoing && !cc.raw
			limit := int64(2*4096 + 256)
			if sealed {
				// an authenticated, within-cap ciphertext is read completely before
				// its inner declaration can be seen: the cap that applies is the outer one
				limit = int64(len(data))
			}
			if consumed > limit {
				c.Violate("cap-bypassed", "", "rcv", "%s: receiver consumed %d bytes of the stream before refusing (limit %d)", cc.name, consumed, limit)
				break
			}
			if rc.Changed || len(rc.Msgs) > 0 || len(rc.Merged) > 0 {
				c.Violate("oversized-input-had-effect", "", "rcv", "%s: %s", cc.name, rc.key())
				break
			}
			if d > conf.TCPTimeout/2 {
				c.Reach("cap_refusal_slow")
			}
			c.Reach("cap_case")
		}
	case 5: // more than maxPushPullRequests concurrent (stalled) push/pulls
		hdr := wrapStreamFor(R, buildPushPull(false, []pushNodeState{{Name: "q", Addr: ip4(10, 0, 0, 77), Port: 7946, Incarnation: 1, State: StateAlive, Vsn: c01Vsn(0)}}, nil, 5, 0), !skip)
		var conns []net.Conn
		for i := 0; i < maxPushPullRequests+12; i++ {
			cn, err := l.att.ep.DialAddressTimeout(Address{Addr: R.ep.addr, Name: "rcv"}, time.Second)
			if err != nil {
				continue
			}
			// declare 5 nodes but deliver one: the handler blocks reading the rest
			_, _ = cn.Write(hdr)
			conns = append(conns, cn)
			sim.Settle()
		}
		sim.Run(10 * time.Millisecond)
		if maxPP > maxPushPullRequests {
			c.Violate("pushpull-cap-exceeded", "", "rcv", "%d concurrent push/pull handlers, documented maximum %d", maxPP, maxPushPullRequests)
		}
		sim.Run(conf.TCPTimeout + 300*time.Millisecond)
		sim.Settle()
		open := 0
		for _, cn := range conns {
			if !cn.(*simConn).peer.isClosed() {
				open++
			}
		}
		if open > 0 {
			c.Violate("stream-handler-hung", "", "rcv", "%d of %d stalled push/pull connections are still held open %v after TCPTimeout", open, len(conns), 300*time.Millisecond)
		}
		for _, cn := range conns {
			_ = cn.Close()
		}
		if pp := m.pushPullReq.Load(); pp != 0 {
			c.Violate("pushpull-counter-leak", "", "rcv", "push/pull request counter is %d after all handlers ended", pp)
		}
		if encryptedOrPlain := true; encryptedOrPlain {
			c.Reach("pushpull_flood")
		}
		injected += len(conns)
	case 6: // hand-off queue overflow: a burst inside one compound while the handler is busy
		var parts [][]byte
		for i := 0; i < 3*conf.HandoffQueueDepth+5 && i < 250; i++ {
			parts = append(parts, mustEncode(aliveMsg, &alive{Incarnation: 1, Node: fmt.Sprintf("b%d", i), Addr: ip4(10, 0, 3, byte(i)), Port: 7946, Vsn: c01Vsn(0)}))
		}
		buf := wrapIn(makeCompoundMessage(parts).Bytes())
		// let the scheduler interleave the listener (parks before each push) with
		// the handler (parks at aliveNode) so the queue really fills up
		sim.yieldAll = false
		sim.yieldSites = map[string]bool{"alive": true, "handoff": true}
		for k := 0; k < 4; k++ {
			R.ep.deliverPacket(append([]byte(nil), buf...), from)
		}
		sim.Settle()
		sim.yieldSites = map[string]bool{}
		injected += 4
		c.Reach("handoff_burst")
		if maxHQ >= conf.HandoffQueueDepth {
			c.Reach("handoff_queue_full")
		}
		digest0 = R.digest()
	case 7: // decompression bomb: > maxDecompressedBytes of zeros
		var zb bytes.Buffer
		w := lzw.NewWriter(&zb, lzw.LSB, lzwLitWidth)
		chunk := make([]byte, 1<<20)
		for i := 0; i < maxDecompressedBytes/(1<<20)+2; i++ {
			_, _ = w.Write(chunk)
		}
		_ = w.Close()
		var out bytes.Buffer
		out.WriteByte(byte(compressMsg))
		hd := codec.MsgpackHandle{}
		_ = codec.NewEncoder(&out, &hd).Encode(&compress{Algo: lzwAlgo, Buf: zb.Bytes()})
		injectPkt(wrapIn(out.Bytes()), "LZW bomb packet")
		c.Reach("lzw_bomb")
	}
	sim.onStep = nil
	if !c.Failed() {
		// modes 0-5 never carry an authentic well-formed membership change
		if mode == 3 || mode == 4 || mode == 5 {
			if d := R.digest(); d != digest0 && mode != 3 {
				c.Violate("hostile-input-changed-membership", "", "rcv", "membership digest changed")
			}
		}
		// listeners keep serving: a genuine ping is acked, a genuine stream ping is answered
		l.emitted = nil
		R.ep.deliverPacket(wrapIn(mustEncode(pingMsg, &ping{SeqNo: 31337, Node: "rcv", SourceAddr: l.S.ip, SourcePort: 7946, SourceNode: "snd"})), &net.UDPAddr{IP: l.S.ip, Port: 7946})
		sim.Settle()
		acked := false
		for _, e := range l.emitted {
			if contains(e.Msgs, fmt.Sprintf("%d:", ackRespMsg)) {
				acked = true
			}
		}
		if !acked {
			c.Violate("packet-listener-dead", "", "rcv", "after the hostile input a genuine ping is no longer acknowledged (emitted: %v)", l.emitted)
		}
		if len(strs) > 0 {
			var sp *capMsg
			for i := range strs {
				if strs[i].Kind == "s-ping" {
					sp = &strs[i]
				}
			}
			if sp != nil && !skip {
				rc := l.injectStream(sp.Buf)
				if len(rc.Reply) < 3 || rc.Reply[:3] != "ack" {
					c.Violate("stream-listener-dead", "", "rcv", "after the hostile input a genuine TCP ping is not answered (reply %q)", rc.Reply)
				}
			}
		}
	}
	// no handler goroutine / connection may survive TCPTimeout
	sim.Run(conf.TCPTimeout + 100*time.Millisecond)
	sim.Settle()
	if !c.Failed() {
		if open := l.cl.net.openConns(R.ep, true); len(open) > 0 {
			c.Violate("connection-leak", "", "rcv", "%d server-side connections still open %v after the last input", len(open), conf.TCPTimeout)
		}
		synctest.Wait()
		for _, g := range leakedGoroutines() {
			if contains(g, "(*Memberlist).handleConn") {
				c.Violate("goroutine-leak", "", "rcv", "stream handler goroutine still alive after TCPTimeout:\n%s", g)
				break
			}
		}
	}
	c.Res.Nontrivial = injected > 0
	c.Stat("inputs", int64(injected))
	c.Stat("undecodable_inputs", int64(undecodable))
	c.Stat("max_handoff_len", int64(maxHQ))
	c.Stat("max_concurrent_pushpull", int64(maxPP))
	c.Reach(fmt.Sprintf("mode%d", mode))
	c.Res.FP = fmt.Sprintf("%016x", hash64(uint64(mode), uint64(p.param("msg", 0)%12), uint64(p.Cfg.Encrypt), hashStr(p.Cfg.Label), uint64(boolInt(p.Cfg.VerifyIncoming)), uint64(boolInt(skip)), uint64(p.Cfg.ProtocolVersion), uint64(boolInt(p.Cfg.Compression)), uint64(p.Cfg.HandoffDepth)))
	c.Res.Sample = map[string]any{"mode": mode, "inputs": injected, "enc": p.Cfg.Encrypt, "label": p.Cfg.Label, "verify_in": p.Cfg.VerifyIncoming, "skip_label_check": skip}
	l.finish()
}

// ---------------------------------------------------------------- C13C: hostile traffic injected into a live, encrypted, healthy cluster

func init() {
	register(&Scenario{Name: "C13C", Gen: genC13C, Exec: execC13C})
}

func genC13C(c *Ctx) *Plan {
	p := genC04(c)
	r := c.R
	p.Cfg.Encrypt = r.pick(16, 24, 32)
	p.Cfg.VerifyIncoming = true
	p.Cfg.VerifyOutgoing = true
	// keep only creates and joins plus a few user ops; no leaves (the C04 invariants then say: nothing changes)
	kept := p.Ops[:0]
	for _, o := range p.Ops {
		if o.Kind == "leave" || o.Kind == "slowdelegate" {
			continue
		}
		kept = append(kept, o)
	}
	p.Ops = kept
	p.P["inject_every_us"] = int64(r.pick(500, 5000, 50000))
	return p
}

func execC13C(c *Ctx) {
	p := c.Plan
	mon := &c04mon{}
	cx := startClusterRun(c, mon, &healthMon{}, newEventMon(), newSelfMon())
	att := cx.cl.net.newEndpoint(85, "att", ip4(10, 0, 9, 8), 7946)
	att.yieldOff = true
	r := newRng(hash64(c.Seed, 0xc13c))
	var captured [][]byte
	cx.cl.net.tapFn = func(tr *tapRec) {
		if !tr.Stream && tr.From != "att" && len(captured) < 400 {
			captured = append(captured, tr.Buf)
		}
	}
	end := time.Duration(p.param("end", int64(30*time.Second)))
	every := time.Duration(p.param("inject_every_us", 5000)) * time.Microsecond
	injected := int64(0)
	var seq uint64
	var tick func()
	tick = func() {
		if c.Sim.Now() >= end-2*time.Second {
			return
		}
		nodes := cx.runningSet()
		if len(nodes) > 0 {
			tgt := nodes[r.intn(len(nodes))]
			var buf []byte
			switch {
			case len(captured) > 0 && r.chance(0.7):
				g := captured[r.intn(len(captured))]
				buf = append([]byte(nil), g...)
				switch r.intn(4) {
				case 0:
					buf[r.intn(len(buf))] ^= byte(1 << r.intn(8))
				case 1:
					buf = buf[:r.intn(len(buf))]
				case 2:
					buf[r.intn(len(buf))] = byte(r.u64())
					buf[r.intn(len(buf))] = byte(r.u64())
				case 3:
					o := captured[r.intn(len(captured))]
					buf = append(buf[:r.intn(len(buf))], o[r.intn(len(o)):]...)
				}
				same := false
				for _, g2 := range captured {
					if string(g2) == string(buf) {
						same = true // an unmodified genuine packet would be a replay, not hostile bytes
					}
				}
				if same {
					buf = nil
				}
			default:
				buf = r.bytes(r.pick(1, 5, 30, 200, 1500))
			}
			if len(buf) > 0 {
				src := &net.UDPAddr{IP: nodes[r.intn(len(nodes))].ip, Port: 7946} // spoofed source
				tgt.ep.deliverPacket(buf, src)
				injected++
			}
		}
		seq++
		c.Sim.After(every, 1<<59, seq, "inject", tick)
	}
	c.Sim.After(2*time.Second, 1<<59, 0, "inject", tick)
	c.Sim.RunUntil(end, func() bool { return c.Failed() })
	c.Res.Nontrivial = injected > 50
	c.Stat("packets_injected", injected)
	c.Res.Sample = map[string]any{"n": p.N, "injected": injected, "enc": p.Cfg.Encrypt}
	cx.finish()
}
