package memberlist

// Monitors evaluated at every quiescent driver step in cluster mode.

import (
	"fmt"
	"sort"
	"strings"
	"time"
)

// ---------------------------------------------------------------- health score range (C19)

type healthMon struct{}

func (h *healthMon) step(cx *clusterRun) {
	for _, n := range cx.cl.nodes {
		if n.m == nil {
			continue
		}
		sc := n.m.GetHealthScore()
		if sc < 0 || sc > n.conf.AwarenessMaxMultiplier-1 {
			cx.c.Violate("health-range", "", n.name, "health score %d outside [0,%d]", sc, n.conf.AwarenessMaxMultiplier-1)
		}
	}
}
func (h *healthMon) finish(cx *clusterRun) {}

// ---------------------------------------------------------------- event log == Members() (C07)

type evState struct {
	m       *Memberlist
	next    int               // next unprocessed event
	set     map[string]string // member -> meta per event replay
	reported bool
}

type eventMon struct {
	st map[int]*evState
	events int64
}

func newEventMon() *eventMon { return &eventMon{st: map[int]*evState{}} }

func (em *eventMon) step(cx *clusterRun) {
	for _, n := range cx.cl.nodes {
		em.checkNode(cx.c, n)
	}
}

func (em *eventMon) checkNode(c *Ctx, n *SimNode) {
	if n.m == nil {
		return
	}
	st := em.st[n.idx]
	if st == nil || st.m != n.m {
		// new instance (first create or restart): start from this instance's log
		st = &evState{m: n.m, set: map[string]string{}}
		em.st[n.idx] = st
		n.mu.Lock()
		// the log of this instance (usually its own join comes first, but a packet handled
		// between newMemberlist and setAlive inside Create may deliver a peer's join before it)
		st.next = n.genStart
		n.mu.Unlock()
	}
	if st.reported {
		return
	}
	if n.cbOverlap.Load() > 0 {
		c.Violate("event-concurrent", "", n.name, "two event callbacks overlapped on %s", n.name)
		st.reported = true
		return
	}
	n.mu.Lock()
	evs := n.events[st.next:]
	st.next = len(n.events)
	n.mu.Unlock()
	for _, e := range evs {
		em.events++
		_, in := st.set[e.Name]
		switch e.Kind {
		case "join":
			if in {
				c.Violate("event-pattern", "", n.name, "%s: join for %s which is already joined (no leave in between)", n.name, e.Name)
				st.reported = true
			}
			st.set[e.Name] = e.Meta
		case "update":
			if !in {
				c.Violate("event-pattern", "", n.name, "%s: update for %s which is not joined", n.name, e.Name)
				st.reported = true
			}
			st.set[e.Name] = e.Meta
		case "leave":
			if !in {
				c.Violate("event-pattern", "", n.name, "%s: leave for %s which is not joined", n.name, e.Name)
				st.reported = true
			}
			delete(st.set, e.Name)
		}
		if e.SetOK {
			// The callback runs before the library finishes the state change for
			// joins (state already alive) and leaves (state already dead), so the
			// captured set must equal the replay up to and including this event.
			var names []string
			for k := range st.set {
				names = append(names, k)
			}
			sort.Strings(names)
			if !eqStrs(names, e.Set) {
				c.Violate("event-set-mismatch", "", n.name, "%s: after event #%d %s(%s) replay gives %v but Members-equivalent set inside the callback was %v", n.name, e.Seq, e.Kind, e.Name, names, e.Set)
				st.reported = true
			}
		}
	}
	// at a quiescent point the replayed set must equal Members()
	mem := n.m.Members()
	got := map[string]string{}
	for _, m := range mem {
		got[m.Name] = string(m.Meta)
	}
	bad := ""
	if len(got) != len(st.set) {
		bad = "size"
	}
	for k, meta := range st.set {
		gm, ok := got[k]
		if !ok {
			bad = "missing " + k
			break
		}
		if gm != meta {
			bad = fmt.Sprintf("meta of %s: events say %q, Members() says %q", k, meta, gm)
			break
		}
	}
	if bad != "" {
		var a, b []string
		for k := range st.set {
			a = append(a, k)
		}
		for k := range got {
			b = append(b, k)
		}
		sort.Strings(a)
		sort.Strings(b)
		c.Violate("event-members-mismatch", "", n.name, "%s: event replay %v != Members() %v (%s)", n.name, a, b, bad)
		st.reported = true
	}
}

func (em *eventMon) finish(cx *clusterRun) {
	cx.c.Stat("events", em.events)
}

// ---------------------------------------------------------------- rank monotonicity (C01 cluster form)

type rankKey struct {
	obs int
	m   *Memberlist
	who string
}

type monoMon struct {
	last map[rankKey]recView
	// instant at which the monitor itself first saw the record dead/left (the record's own
	// StateChange field is the library's bookkeeping and is not trusted for the retention rule)
	deadSince map[rankKey]time.Time
	gtd  time.Duration
	checks int64
}

func newMonoMon(gossipToDead time.Duration) *monoMon {
	return &monoMon{last: map[rankKey]recView{}, deadSince: map[rankKey]time.Time{}, gtd: gossipToDead}
}

func strength(s NodeStateType) int {
	switch s {
	case StateAlive:
		return 0
	case StateSuspect:
		return 1
	default:
		return 2
	}
}

func rankLess(a, b recView) bool { // a < b
	if a.Inc != b.Inc {
		return a.Inc < b.Inc
	}
	return strength(a.State) < strength(b.State)
}

func (mm *monoMon) step(cx *clusterRun) {
	now := time.Now()
	for _, n := range cx.cl.nodes {
		if n.m == nil {
			continue
		}
		m := n.m
		m.nodeLock.RLock()
		seen := map[string]bool{}
		for name := range m.nodeMap {
			seen[name] = true
			cur := viewLocked(m, name)
			k := rankKey{n.idx, m, name}
			prev, ok := mm.last[k]
			mm.checks++
			if ok && prev.Present && rankLess(cur, prev) {
				// permitted: address reclaim after left / dead longer than reclaim time
				reclaim := (cur.Addr != prev.Addr || cur.Port != prev.Port) && (prev.State == StateLeft || (prev.State == StateDead && m.config.DeadNodeReclaimTime > 0 && now.Sub(prev.Change) > m.config.DeadNodeReclaimTime))
				// the local node may restart its own record? never regress either.
				if !reclaim {
					cx.c.Violate("rank-regression", "", n.name, "%s: view of %s went backwards: %s -> %s", n.name, name, prev, cur)
				}
			}
			mm.last[k] = cur
			if cur.State == StateDead || cur.State == StateLeft {
				if _, since := mm.deadSince[k]; !since {
					mm.deadSince[k] = now
				}
			} else {
				delete(mm.deadSince, k)
			}
		}
		for k, prev := range mm.last {
			if k.obs == n.idx && k.m == m && !seen[k.who] && prev.Present {
				// record removed: only by reaping a dead/left record older than GossipToTheDeadTime
				if !(prev.State == StateDead || prev.State == StateLeft) || now.Sub(prev.Change) <= mm.gtd {
					cx.c.Violate("record-vanished", "", n.name, "%s: record of %s (%s, changed %v ago) disappeared", n.name, k.who, prev, now.Sub(prev.Change))
				}
				if since, ok := mm.deadSince[k]; ok && !prev.Change.IsZero() && (prev.State == StateDead || prev.State == StateLeft) && now.Sub(since)+50*time.Millisecond <= mm.gtd {
					// (50 ms: the monitor first sees the new state at the end of the scheduler step that made it; a
					// slow or descheduled callback inside that step lets a little virtual time pass in between)
					// the tombstone is what keeps alive messages no newer than the death/departure from
					// bringing the member back; it must be retained for GossipToTheDeadTime
					cx.c.Violate("record-vanished", "", n.name, "%s: tombstone of %s (%s) was reaped %v after the member was recorded dead/left; retention (GossipToTheDeadTime) is %v", n.name, k.who, prev, now.Sub(since), mm.gtd)
				}
				delete(mm.deadSince, k)
				delete(mm.last, k)
			}
		}
		m.nodeLock.RUnlock()
	}
}
func (mm *monoMon) finish(cx *clusterRun) { cx.c.Stat("rank_checks", mm.checks) }

func joinStrs(xs []string) string { return strings.Join(xs, ",") }

// ---------------------------------------------------------------- a running node defends itself (C02 cluster form)

type selfMon struct {
	lastInc map[*Memberlist]uint32
	checks  int64
}

func newSelfMon() *selfMon { return &selfMon{lastInc: map[*Memberlist]uint32{}} }

func (sm *selfMon) step(cx *clusterRun) {
	for _, n := range cx.cl.nodes {
		if n.m == nil || !n.running() {
			continue
		}
		m := n.m
		inc := m.incarnation.Load()
		if last, ok := sm.lastInc[m]; ok && inc < last {
			cx.c.Violate("incarnation-decreased", "", n.name, "%s: own incarnation went from %d to %d", n.name, last, inc)
		}
		sm.lastInc[m] = inc
		if n.leftCalled {
			continue // the statement excludes a node that has called Leave
		}
		sm.checks++
		v := n.view(n.name)
		if !v.Present || v.State != StateAlive {
			cx.c.Violate("self-not-alive", "", n.name, "%s is running and has not called Leave but records itself as %s", n.name, v)
		}
	}
}
func (sm *selfMon) finish(cx *clusterRun) { cx.c.Stat("self_checks", sm.checks) }
