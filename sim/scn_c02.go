package memberlist

// C02 — a running node always defends itself: refutation outranks every accusation.

import (
	"bytes"
	"fmt"
	"net"
	"time"
)

func init() {
	register(&Scenario{Name: "C02", Gen: genC02, Exec: execC02})
}

// op: Kind suspect|dead|alive|ppsuspect|ppdead|ppleft|ppalive|update|wait
//  A: incarnation selector (relative): -1 own-1, 0 own, 1 own+1, 2 own+k(B), 3 = 2^31, 4 = 2^32-3 ; B: k
//  C: meta variant (0 same as own, 1 different) ; D: vsn variant (0 own,1 other valid,2 short,3 invalid) ; Node: path ; S: sender ; S2: addr "own"|"other"
func genC02(c *Ctx) *Plan {
	r := c.R
	p := &Plan{Cfg: benchCfg(r), P: map[string]int64{}, YieldOff: []string{"*"}}
	p.P["npup"] = int64(r.rangeI(0, 4))
	n := r.rangeI(1, 10)
	for i := 0; i < n; i++ {
		kinds := []string{"suspect", "suspect", "dead", "dead", "alive", "alive", "ppsuspect", "ppdead", "ppleft", "ppalive", "update", "wait"}
		k := kinds[r.intn(len(kinds))]
		op := Op{Kind: k, A: int64(r.pick(-1, 0, 0, 1, 1, 2, 2, 3, 4)), B: int64(r.pick(2, 3, 10, 1000)), C: int64(r.intn(2)), D: int64(r.pick(0, 0, 0, 1, 2, 3)), Node: r.pick(0, 0, 1, 2), S: []string{"p1", "p2", "obs", "zz"}[r.intn(4)], S2: []string{"own", "own", "own", "other"}[r.intn(4)]}
		if k == "wait" {
			op.A = int64(r.pick(1, 100, 5000))
		}
		p.Ops = append(p.Ops, op)
	}
	return p
}

func execC02(c *Ctx) {
	p := c.Plan
	b := newBench(c, p.Cfg, false, nil)
	defer b.finish()
	m := b.n.m
	from := &net.UDPAddr{IP: net.IPv4(10, 0, 0, 60).To4(), Port: 7946}
	npup := int(p.param("npup", 2))
	for i := 0; i < npup; i++ {
		a := alive{Incarnation: 1, Node: fmt.Sprintf("p%d", i+1), Addr: net.IPv4(10, 0, 0, byte(60+i)).To4(), Port: 7946, Vsn: c01Vsn(0)}
		m.aliveNode(&a, nil, false)
	}
	ownVsn := m.config.BuildVsnArray()
	// every packet the node sends during a step is decoded for alive-about-self messages
	var sentAlive []alive
	b.cl.net.tapFn = func(r *tapRec) {
		if r.From != "obs" || r.Stream {
			return
		}
		msgs, _ := decodePacket(b.n.conf, r.Buf)
		for _, wm := range msgs {
			if wm.Type == aliveMsg {
				var a alive
				if decode(wm.Body, &a) == nil && a.Node == "obs" {
					sentAlive = append(sentAlive, a)
				}
			}
		}
	}
	refutes, ignored := 0, 0
	maxH := m.config.AwarenessMaxMultiplier - 1
	for i, op := range p.Ops {
		if op.Kind == "wait" {
			b.sim.Run(time.Duration(op.A) * time.Millisecond)
			continue
		}
		own := m.incarnation.Load()
		if own >= 1<<32-4 {
			break // statement excludes accusations at the largest representable incarnation
		}
		if op.Kind == "update" {
			b.n.mu.Lock()
			b.n.meta = []byte(fmt.Sprintf("meta-u%d", i))
			b.n.mu.Unlock()
			_ = m.UpdateNode(time.Millisecond)
			b.sim.Settle()
			if m.incarnation.Load() <= own {
				c.Violate("update-no-bump", "", "obs", "UpdateNode did not raise the incarnation (%d -> %d)", own, m.incarnation.Load())
				return
			}
			c02Always(c, b, i, "update")
			if c.Failed() {
				return
			}
			continue
		}
		var inc uint32
		switch op.A {
		case -1:
			if own > 0 {
				inc = own - 1
			}
		case 0:
			inc = own
		case 1:
			inc = own + 1
		case 2:
			inc = own + uint32(op.B)
		case 3:
			inc = 1 << 31
		case 4:
			inc = 1<<32 - 3
		}
		before := b.snap("obs")
		sentAlive = nil
		meta := []byte(before.view.Meta)
		if op.C == 1 {
			meta = []byte("other-meta")
		}
		vsn := ownVsn
		switch op.D {
		case 1:
			vsn = []uint8{1, 4, 2, 0, 0, 0}
		case 2:
			vsn = []uint8{1, 5, 2}
		case 3:
			vsn = []uint8{0, 5, 2, 0, 0, 0}
		}
		addr, port := b.n.ip, uint16(b.n.port)
		if op.S2 == "other" {
			addr = net.IPv4(10, 0, 0, 77).To4()
		}
		kind := op.Kind
		path := op.Node
		fromName := op.S
		switch op.Kind {
		case "ppsuspect", "ppdead":
			kind = "suspect"
		case "ppleft":
			kind = "dead"
		case "ppalive":
			kind = "alive"
		}
		if len(op.Kind) > 2 && op.Kind[:2] == "pp" {
			st := map[string]NodeStateType{"ppalive": StateAlive, "ppsuspect": StateSuspect, "ppdead": StateDead, "ppleft": StateLeft}[op.Kind]
			m.mergeState([]pushNodeState{{Name: "obs", Addr: addr, Port: port, Meta: meta, Incarnation: inc, State: st, Vsn: vsn}})
			path = 0
		} else {
			var mt messageType
			var body any
			switch kind {
			case "alive":
				mt, body = aliveMsg, &alive{Incarnation: inc, Node: "obs", Addr: addr, Port: port, Meta: meta, Vsn: vsn}
			case "suspect":
				mt, body = suspectMsg, &suspect{Incarnation: inc, Node: "obs", From: fromName}
			case "dead":
				mt, body = deadMsg, &dead{Incarnation: inc, Node: "obs", From: fromName}
			}
			if path == 0 {
				switch v := body.(type) {
				case *alive:
					m.aliveNode(v, nil, false)
				case *suspect:
					m.suspectNode(v)
				case *dead:
					m.deadNode(v)
				}
			} else {
				raw := mustEncode(mt, body)
				if path == 2 {
					// piggybacked on a ping
					raw = makeCompoundMessage([][]byte{mustEncode(pingMsg, &ping{SeqNo: uint32(1000 + i), Node: "obs"}), raw}).Bytes()
				}
				b.inject(b.wrapPacket(raw, false, false), from)
			}
		}
		b.sim.Settle()
		after := b.snap("obs")
		what := fmt.Sprintf("accusation #%d %s inc=%d (own %d) meta-diff=%v vsn=%v addr=%s from=%s path=%d", i, op.Kind, inc, own, op.C == 1, vsn, op.S2, fromName, path)
		c.Reach(fmt.Sprintf("path%d", path))
		c02Always(c, b, i, what)
		if c.Failed() {
			return
		}
		if after.ownInc < before.ownInc {
			c.Violate("incarnation-decreased", "", "obs", "%s: own incarnation %d -> %d", what, before.ownInc, after.ownInc)
			return
		}
		mustRefute, mayIgnore := false, false
		switch kind {
		case "suspect", "dead":
			mustRefute = inc >= own
		case "alive":
			if op.S2 == "other" || op.D == 3 || op.D == 2 {
				// different address = name conflict (C08); malformed/short version
				// vectors may be ignored: only the unconditional half applies
				mayIgnore = true
			} else if inc > own {
				mustRefute = true
			} else if inc == own && (op.C == 1 || !bytes.Equal(vsn, ownVsn)) {
				mustRefute = true
			}
		}
		if mayIgnore {
			ignored++
			continue
		}
		if mustRefute {
			refutes++
			if after.ownInc <= inc {
				c.Violate("refutation-does-not-outrank", "", "obs", "%s: own incarnation after refutation is %d, not above the accusation", what, after.ownInc)
				return
			}
			// an alive about us carrying exactly the new incarnation must be queued
			// (queued under any key - refute() keys its broadcast by address - or
			// already handed to the transport, e.g. piggybacked on an ack)
			var cands []alive
			for _, msg := range b.n.queuedBroadcasts() {
				var a alive
				if len(msg) > 0 && messageType(msg[0]) == aliveMsg && decode(msg[1:], &a) == nil && a.Node == "obs" {
					cands = append(cands, a)
				}
			}
			cands = append(cands, sentAlive...)
			okInc := false
			var seen []uint32
			for _, a := range cands {
				seen = append(seen, a.Incarnation)
				if a.Incarnation == after.ownInc {
					okInc = true
				}
			}
			if !okInc {
				c.Violate("no-refutation-gossip", "", "obs", "%s: no alive message about ourselves with the new incarnation %d queued or sent (alive incarnations seen: %v)", what, after.ownInc, seen)
				return
			}
			if after.view.Inc != after.ownInc {
				c.Violate("record-incarnation-mismatch", "", "obs", "%s: own record has incarnation %d but counter is %d", what, after.view.Inc, after.ownInc)
				return
			}
			wantH := before.health + 1
			if wantH > maxH {
				wantH = maxH
			}
			if after.health != wantH {
				c.Violate("health-not-raised", "", "obs", "%s: health %d -> %d, expected %d", what, before.health, after.health, wantH)
				return
			}
		} else {
			if after.ownInc != before.ownInc || after.view != before.view || after.health != before.health {
				c.Violate("stale-accusation-had-effect", "", "obs", "%s: accusation below our incarnation changed state: inc %d -> %d, record %s -> %s", what, before.ownInc, after.ownInc, before.view, after.view)
				return
			}
		}
	}
	c.Res.Nontrivial = refutes > 0
	c.Stat("refutations", int64(refutes))
	c.Stat("may_ignore", int64(ignored))
	c.Res.FP = fmt.Sprintf("%016x", hash64(hashOps(p.Ops), uint64(npup)))
	c.Res.Sample = map[string]any{"ops": len(p.Ops), "refutations": refutes}
}

// c02Always: the unconditional half — the node lists itself alive.
func c02Always(c *Ctx, b *Bench, i int, what string) {
	m := b.n.m
	found := false
	for _, mm := range m.Members() {
		if mm.Name == "obs" {
			found = true
		}
	}
	v := b.n.view("obs")
	if !found || !v.Present || v.State != StateAlive {
		c.Violate("self-not-alive", "", "obs", "after %s: node does not list itself alive (record %s, in Members()=%v)", what, v, found)
		return
	}
	ln := m.LocalNode()
	if ln == nil || ln.Name != "obs" || !ln.Addr.Equal(b.n.ip) {
		c.Violate("localnode-wrong", "", "obs", "after %s: LocalNode() = %+v", what, ln)
	}
}
