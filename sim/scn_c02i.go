package memberlist

// C02I: UpdateNode on a running node raced by forged accusations / stale alive claims
// about that node. The scheduler decides at the update / alive / suspect / dead yield
// sites who takes the node lock first. Whatever the order: the node's own record never
// moves backwards (C01), it keeps listing itself alive and its incarnation never
// decreases (C02), every UpdateNode call returns (C20), and a successfully returned
// UpdateNode is what the node and every peer end up showing (C05 "latest metadata").

import (
	"fmt"
	"net"
	"time"
)

func init() {
	register(&Scenario{Name: "C02I", Gen: genC02I, Exec: execC02I})
}

func genC02I(c *Ctx) *Plan {
	r := c.R
	p := &Plan{N: r.rangeI(2, 4), Cfg: genCfg(r), P: map[string]int64{}}
	p.Cfg.GossipToDeadMs = 3600_000
	p.Cfg.HandoffDepth = 1024
	p.Cfg.PushPullMs = r.pick(1000, 2000)
	if p.Cfg.ProbeTimeoutMs*2 > p.Cfg.ProbeIntervalMs {
		p.Cfg.ProbeTimeoutMs = p.Cfg.ProbeIntervalMs / 3
	}
	n := p.N
	p.Net.MinDelay = 1000
	p.Net.MaxDelay = int64(r.pick(100_000, 1_000_000))
	t := int64(1000)
	for i := 0; i < n; i++ {
		t += 1_000_000 + r.i64n(100_000_000)
		p.Ops = append(p.Ops, Op{At: t, Kind: "create", Node: i})
	}
	for i := 1; i < n; i++ {
		p.Ops = append(p.Ops, Op{At: t + 1_000_000 + r.i64n(500_000_000), Kind: "join", Node: i, L: []int64{int64(r.intn(i))}})
	}
	x := r.intn(n)
	p.P["target"] = int64(x)
	T := t + 2_000_000_000
	eps := r.rangeI(1, 3)
	for e := 0; e < eps; e++ {
		T += 1_500_000_000 + r.i64n(2_000_000_000)
		to := int64(r.pick(0, 0, 200, 2000))
		p.Ops = append(p.Ops, Op{At: T, Kind: "update", Node: x, S: fmt.Sprintf("meta-%d-%d", e, r.intn(1000)), A: to})
		if r.chance(0.25) {
			// two concurrent UpdateNode calls
			p.Ops = append(p.Ops, Op{At: T + int64(r.pick(0, 1, 1000)), Kind: "update", Node: x, S: fmt.Sprintf("meta-%d-b%d", e, r.intn(1000)), A: to})
		}
		k := r.rangeI(0, 4)
		for i := 0; i < k; i++ {
			off := int64(r.pick(-1_000_000, -100_000, -1000, -1, 0, 1, 1000, 100_000))
			kind := []string{"suspect", "suspect", "dead", "alive"}[r.intn(4)]
			from := r.intn(n)
			p.Ops = append(p.Ops, Op{At: T + off, Kind: "accuse", Node: x, S: kind, A: int64(r.pick(-1, 0, 0, 0, 1, 5)), C: int64(from)})
		}
	}
	p.P["end"] = T + 3_000_000_000
	// the racing sites stay on; the rest is toggled as everywhere else
	for _, s := range genYieldOff(r) {
		if s != "update" && s != "alive" && s != "suspect" && s != "dead" {
			p.YieldOff = append(p.YieldOff, s)
		}
	}
	p.Cfg.AliveDel = r.chance(0.5) // an accepting AliveDelegate: a preemption point if it is ever called without the node lock
	return p
}

func execC02I(c *Ctx) {
	p := c.Plan
	x := int(p.param("target", 0))
	cx := startClusterRun(c, newEventMon(), &healthMon{}, newMonoMon(ms(p.Cfg.GossipToDeadMs)), newSelfMon())
	X := cx.node(x)
	if X == nil {
		return
	}
	accusations := 0
	cx.customOp = func(rec *opRec) bool {
		op := rec.Op
		if op.Kind != "accuse" {
			return false
		}
		if X.m == nil || !X.running() {
			return true
		}
		from := cx.node(int(op.C))
		if from == nil {
			return true
		}
		own := int64(X.m.incarnation.Load())
		if own+op.A < 0 {
			return true
		}
		inc := uint32(own + op.A)
		var raw []byte
		switch op.S {
		case "suspect":
			raw = mustEncode(suspectMsg, &suspect{Incarnation: inc, Node: X.name, From: from.name})
		case "dead":
			raw = mustEncode(deadMsg, &dead{Incarnation: inc, Node: X.name, From: from.name})
		case "alive":
			raw = mustEncode(aliveMsg, &alive{Incarnation: inc, Node: X.name, Addr: X.ip, Port: uint16(X.port), Meta: []byte("stale-meta"), Vsn: X.conf.BuildVsnArray()})
		default:
			return true
		}
		X.ep.deliverPacket(wrapPacketFor(X, raw, false, false), &net.UDPAddr{IP: from.ip, Port: from.port})
		accusations++
		c.Reach("accusation_" + op.S)
		return true
	}
	end := time.Duration(p.param("end", int64(20*time.Second)))
	c.Sim.RunUntil(end, func() bool { return c.Failed() })
	if c.Failed() {
		cx.finish()
		return
	}
	// every UpdateNode call has returned: with a timeout it may fail, without one it waits for
	// its broadcast (or its replacement) to have been transmitted, which a loss-free cluster
	// with running gossip does within a few gossip rounds
	var last *opRec
	updates := 0
	for _, rec := range cx.ops {
		if rec.Op.Kind != "update" || rec.Err == "not running" {
			continue
		}
		updates++
		if !rec.Done {
			c.Violate("update-blocked", "", X.name, "UpdateNode(%dms) with meta %q called at %v has not returned by %v (own record %s, incarnation counter %d)", rec.Op.A, rec.Op.S, rec.StartT, c.Sim.Now(), X.view(X.name), X.m.incarnation.Load())
			continue
		}
		if rec.Err != "" {
			c.Reach("update_error")
			c.Stat("update_errors", 1)
		}
		if last == nil || rec.EndSeq > last.EndSeq {
			last = rec
		}
	}
	// which meta is the latest? the delegate's current answer (set by the last update op started)
	X.mu.Lock()
	latest := string(X.meta)
	X.mu.Unlock()
	allNil := true
	for _, rec := range cx.ops {
		if rec.Op.Kind == "update" && rec.Done && rec.Err != "" && rec.Err != "not running" {
			allNil = false
		}
	}
	if !c.Failed() && updates > 0 && allNil {
		// every UpdateNode returned nil, so the owner's latest metadata is what the delegate
		// returns now unless two concurrent calls raced (then either of the two is acceptable)
		accept := map[string]bool{latest: true}
		for _, rec := range cx.ops {
			if rec.Op.Kind == "update" && last != nil && rec.Op.At >= last.Op.At-2000 && rec.Op.At <= last.Op.At+2000 {
				accept[rec.Op.S] = true
			}
		}
		cfgNoGTD := p.Cfg
		cfgNoGTD.GossipToDeadMs = 0
		budget := settleBudget(cfgNoGTD, p.N)
		if budget > 10*time.Minute {
			budget = 10 * time.Minute
		}
		conv := func() bool {
			for _, n := range cx.cl.nodes {
				if n.m == nil || !n.running() {
					continue
				}
				v := n.view(X.name)
				if !v.Present || v.State != StateAlive || !accept[v.Meta] {
					return false
				}
			}
			return true
		}
		c.Sim.RunUntil(c.Sim.Now()+budget, func() bool { return c.Failed() || conv() })
		if !c.Failed() && !conv() {
			for _, n := range cx.cl.nodes {
				if n.m == nil || !n.running() {
					continue
				}
				v := n.view(X.name)
				if !v.Present || v.State != StateAlive || !accept[v.Meta] {
					who := "peer " + n.name
					if n == X {
						who = "the node itself"
					}
					c.Violate("update-lost", "", n.name, "every UpdateNode on %s returned nil (latest metadata %q) but %v later %s shows %s as %s with metadata %q (own incarnation counter %d)", X.name, latest, c.Sim.Now()-time.Duration(last.Op.At), who, X.name, v, v.Meta, X.m.incarnation.Load())
					break
				}
			}
		}
	}
	c.Stat("accusations", int64(accusations))
	c.Stat("updates", int64(updates))
	c.Res.Nontrivial = updates > 0 && accusations > 0
	c.Res.Sample = map[string]any{"n": p.N, "updates": updates, "accusations": accusations}
	cx.finish()
}
