package memberlist

// C10 — TransmitLimitedQueue against a sequential reference model, generated
// operation histories (object mode, no clock needed).

import (
	"fmt"
	"math"
	"sort"
)

func init() {
	register(&Scenario{Name: "C10", Gen: genC10, Exec: execC10, NoBubble: true})
}

type qItem struct {
	id       int
	kind     int // 0 named, 1 unique, 2 plain
	name     string
	key      string
	msg      []byte
	finished int
}

type qbNamed struct{ it *qItem }

func (b *qbNamed) Invalidates(o Broadcast) bool {
	nb, ok := o.(NamedBroadcast)
	if !ok {
		return false
	}
	return b.it.name == nb.Name()
}
func (b *qbNamed) Message() []byte { return b.it.msg }
func (b *qbNamed) Finished()       { b.it.finished++ }
func (b *qbNamed) Name() string    { return b.it.name }

type qbUnique struct{ it *qItem }

func (b *qbUnique) Invalidates(o Broadcast) bool { return false }
func (b *qbUnique) Message() []byte              { return b.it.msg }
func (b *qbUnique) Finished()                    { b.it.finished++ }
func (b *qbUnique) UniqueBroadcast()             {}

type qbPlain struct{ it *qItem }

func (b *qbPlain) Invalidates(o Broadcast) bool {
	p, ok := o.(*qbPlain)
	return ok && p.it.key == b.it.key
}
func (b *qbPlain) Message() []byte { return b.it.msg }
func (b *qbPlain) Finished()       { b.it.finished++ }

func genC10(c *Ctx) *Plan {
	r := c.R
	p := &Plan{P: map[string]int64{}}
	p.P["mult"] = int64(r.rangeI(0, 5))
	p.P["nodes"] = int64(r.pick(0, 1, 2, 5, 9, 10, 50, 99, 100, 1000))
	nops := r.rangeI(1, 60)
	if c.Tier == "thorough" && r.chance(0.2) {
		nops = r.rangeI(60, 600)
	}
	sizes := []int64{0, 1, 3, 3, 3, 8, 8, 20, 100, 1300}
	names := []string{"", "a", "b", "c", "d"}
	p.YieldOff = []string{"*"}
	for i := 0; i < nops; i++ {
		switch x := r.intn(100); {
		case x < 50:
			kind := r.pick(0, 0, 0, 1, 2)
			op := Op{Kind: "q", A: int64(kind), B: sizes[r.intn(len(sizes))]}
			if kind == 0 {
				op.S = names[r.intn(len(names))]
			} else if kind == 2 {
				op.S = names[1+r.intn(3)]
			}
			p.Ops = append(p.Ops, op)
		case x < 80:
			lim := int64(r.pick(0, 1, 5, 10, 30, 64, 200, 1400, 1<<30))
			p.Ops = append(p.Ops, Op{Kind: "get", A: int64(r.pick(0, 0, 1, 2, 3, 16)), B: lim})
		case x < 86:
			p.Ops = append(p.Ops, Op{Kind: "prune", A: int64(r.pick(-1, 0, 0, 1, 2, 5, 100))})
		case x < 89:
			p.Ops = append(p.Ops, Op{Kind: "reset"})
		case x < 95:
			p.Ops = append(p.Ops, Op{Kind: "numq"})
		default:
			p.Ops = append(p.Ops, Op{Kind: "nodes", A: int64(r.pick(0, 1, 2, 9, 10, 99, 1000))})
		}
	}
	return p
}

// reference model
type qmEntry struct {
	it        *qItem
	transmits int
	arrival   int
}

type qModel struct {
	items   []*qmEntry
	arrival int
}

func docRetransmitLimit(mult, n int) int {
	return mult * int(math.Ceil(math.Log10(float64(n+1))))
}

func (m *qModel) remove(e *qmEntry) {
	for i, x := range m.items {
		if x == e {
			m.items = append(m.items[:i], m.items[i+1:]...)
			return
		}
	}
}

func execC10(c *Ctx) {
	p := c.Plan
	nodes := int(p.param("nodes", 1))
	mult := int(p.param("mult", 3))
	q := &TransmitLimitedQueue{RetransmitMult: mult, NumNodes: func() int { return nodes }}
	model := &qModel{}
	var all []*qItem
	wantFinished := map[*qItem]int{}
	handouts := 0
	maxLen := 0
	sawEqualLen := false
	check := func(step int, what string) bool {
		for _, it := range all {
			if it.finished != wantFinished[it] {
				sig := ""
				c.Violate("finished-count", sig, "", "after op #%d %s: broadcast #%d (%s %q len %d) Finished() called %d times, model says %d", step, what, it.id, []string{"named", "unique", "plain"}[it.kind], it.name, len(it.msg), it.finished, wantFinished[it])
				return false
			}
		}
		if n := q.NumQueued(); n != len(model.items) {
			c.Violate("numqueued", "", "", "after op #%d %s: NumQueued()=%d, model has %d queued (a broadcast was silently lost or duplicated)", step, what, n, len(model.items))
			return false
		}
		return true
	}
	for i, op := range p.Ops {
		what := fmt.Sprintf("%s(%d,%d,%q)", op.Kind, op.A, op.B, op.S)
		switch op.Kind {
		case "nodes":
			nodes = int(op.A)
		case "numq":
		case "q":
			it := &qItem{id: len(all), kind: int(op.A), name: op.S, key: op.S, msg: make([]byte, op.B)}
			for j := range it.msg {
				it.msg[j] = byte(it.id)
			}
			all = append(all, it)
			for _, e := range model.items {
				if len(e.it.msg) == len(it.msg) {
					sawEqualLen = true
				}
			}
			var b Broadcast
			switch it.kind {
			case 0:
				b = &qbNamed{it}
				if it.name != "" {
					for _, e := range append([]*qmEntry(nil), model.items...) {
						if e.it.kind == 0 && e.it.name == it.name {
							wantFinished[e.it]++
							model.remove(e)
						}
					}
				}
				// a named broadcast with an empty name is treated like a plain one by
				// the queue, but it only ever meets plain items there and a Named
				// Invalidates() never matches those.
			case 1:
				b = &qbUnique{it}
			case 2:
				b = &qbPlain{it}
				for _, e := range append([]*qmEntry(nil), model.items...) {
					if e.it.kind == 2 && e.it.key == it.key {
						wantFinished[e.it]++
						model.remove(e)
					}
				}
			}
			model.arrival++
			model.items = append(model.items, &qmEntry{it: it, arrival: model.arrival})
			q.QueueBroadcast(b)
		case "get":
			overhead, limit := int(op.A), int(op.B)
			got := q.GetBroadcasts(overhead, limit)
			tl := docRetransmitLimit(mult, nodes)
			// reference greedy: tier by tier, longest first, newest first
			var want []*qmEntry
			used := 0
			picked := map[*qmEntry]bool{}
			if len(model.items) > 0 {
				tiers := map[int]bool{}
				for _, e := range model.items {
					tiers[e.transmits] = true
				}
				var ts []int
				for t := range tiers {
					ts = append(ts, t)
				}
				sort.Ints(ts)
			outer:
				for _, t := range ts {
					var cand []*qmEntry
					for _, e := range model.items {
						if e.transmits == t {
							cand = append(cand, e)
						}
					}
					sort.Slice(cand, func(a, b int) bool {
						if len(cand[a].it.msg) != len(cand[b].it.msg) {
							return len(cand[a].it.msg) > len(cand[b].it.msg)
						}
						return cand[a].arrival > cand[b].arrival
					})
					for {
						free := limit - used - overhead
						if free <= 0 {
							break outer
						}
						var k *qmEntry
						for _, e := range cand {
							if !picked[e] && len(e.it.msg) <= free {
								k = e
								break
							}
						}
						if k == nil {
							break
						}
						picked[k] = true
						want = append(want, k)
						used += overhead + len(k.it.msg)
					}
				}
			}
			// property-level checks on what the queue returned
			total := 0
			for _, g := range got {
				total += len(g) + overhead
			}
			if total > limit && len(got) > 0 {
				c.Violate("over-limit", "", "", "op #%d %s returned %d messages totalling %d bytes (incl. overhead) > limit %d", i, what, len(got), total, limit)
				return
			}
			if len(got) != len(want) {
				c.Violate("retrieval-mismatch", "", "", "op #%d %s returned %d messages, reference (fewest transmits, then longest, then newest, while it fits) gives %d; queue len model=%d", i, what, len(got), len(want), len(model.items))
				return
			}
			for j := range got {
				w := want[j].it.msg
				if len(got[j]) != len(w) || (len(w) > 0 && got[j][0] != w[0]) {
					c.Violate("retrieval-order", "", "", "op #%d %s: message %d is (#%d len %d) but reference picks #%d len %d transmits %d", i, what, j, firstByte(got[j]), len(got[j]), want[j].it.id, len(w), want[j].transmits)
					return
				}
			}
			for _, e := range want {
				handouts++
				if e.transmits+1 >= tl {
					wantFinished[e.it]++
					model.remove(e)
				} else {
					e.transmits++
				}
			}
			if len(got) > maxLen {
				maxLen = len(got)
			}
		case "prune":
			k := int(op.A)
			func() {
				defer func() {
					if r := recover(); r != nil {
						c.Violate("panic", "", "", "op #%d Prune(%d) panicked on a queue with %d items (lazy-init state: %v): %v", i, k, len(model.items), q.tq == nil, r)
					}
				}()
				q.Prune(k)
			}()
			if c.Failed() {
				return
			}
			for len(model.items) > k && len(model.items) > 0 {
				// victim: most transmitted, then shortest, then oldest
				v := model.items[0]
				for _, e := range model.items[1:] {
					if e.transmits != v.transmits {
						if e.transmits > v.transmits {
							v = e
						}
						continue
					}
					if len(e.it.msg) != len(v.it.msg) {
						if len(e.it.msg) < len(v.it.msg) {
							v = e
						}
						continue
					}
					if e.arrival < v.arrival {
						v = e
					}
				}
				wantFinished[v.it]++
				model.remove(v)
			}
		case "reset":
			for _, e := range model.items {
				wantFinished[e.it]++
			}
			model.items = nil
			q.Reset()
		}
		if !check(i, what) {
			return
		}
	}
	// conservation: drain. Every broadcast still queued must come out and finish.
	queuedAtEnd := len(model.items)
	nodes = 1
	for round := 0; round < 64 && q.NumQueued() > 0; round++ {
		q.GetBroadcasts(0, 1<<40)
	}
	for _, it := range all {
		if it.finished != 1 {
			c.Violate("conservation", "", "", "after draining, broadcast #%d (%q len %d) finished %d times (must be exactly once): it was %s", it.id, it.name, len(it.msg), it.finished, map[bool]string{true: "silently lost", false: "completed more than once"}[it.finished == 0])
			return
		}
	}
	c.Res.Nontrivial = len(all) >= 2 && handouts > 0
	c.Stat("ops", int64(len(p.Ops)))
	c.Stat("handouts", int64(handouts))
	c.Stat("queued_at_end", int64(queuedAtEnd))
	if sawEqualLen {
		c.Reach("equal_length_items")
	}
	if maxLen > 1 {
		c.Reach("multi_message_retrieval")
	}
	c.Res.FP = fmt.Sprintf("%016x", hashOps(p.Ops))
	c.Res.Sample = map[string]any{"ops": len(p.Ops), "mult": mult}
}

func firstByte(b []byte) int {
	if len(b) == 0 {
		return -1
	}
	return int(b[0])
}

func hashOps(ops []Op) uint64 {
	h := uint64(1)
	for _, o := range ops {
		for _, x := range o.L {
			h = hash64(h, uint64(x))
		}
		h = hash64(h, uint64(o.At), uint64(o.D), hashStr(o.S2))
		h = hash64(h, hashStr(o.Kind), uint64(o.A), uint64(o.B), hashStr(o.S), uint64(o.Node), uint64(o.C), uint64(len(o.L)), hashStr(string(o.Buf)))
	}
	return h
}
