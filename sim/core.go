//go:debug randseednop=0
package memberlist

// Deterministic simulation core: seeded scheduler, discrete-event heap, yield/park
// machinery on top of testing/synctest. Harness code only (overlaid into the package
// at build time by /verif/bin/check; never written into /repo).

import (
	"runtime"
	"container/heap"
	"fmt"
	"hash/fnv"
	"sort"
	"strings"
	"sync"
	"sync/atomic"
	"testing/synctest"
	"time"
)

// ---------------------------------------------------------------- rng

type rng struct{ s uint64 }

func newRng(seed uint64) *rng { return &rng{s: seed*0x9e3779b97f4a7c15 + 0x632be59bd9b4e019} }

func mix64(z uint64) uint64 {
	z = (z ^ (z >> 30)) * 0xbf58476d1ce4e5b9
	z = (z ^ (z >> 27)) * 0x94d049bb133111eb
	return z ^ (z >> 31)
}

func (r *rng) u64() uint64 {
	r.s += 0x9e3779b97f4a7c15
	return mix64(r.s)
}
func (r *rng) intn(n int) int {
	if n <= 0 {
		return 0
	}
	return int(r.u64() % uint64(n))
}
func (r *rng) i64n(n int64) int64 {
	if n <= 0 {
		return 0
	}
	return int64(r.u64() % uint64(n))
}
func (r *rng) rangeI(lo, hi int) int { // inclusive
	if hi <= lo {
		return lo
	}
	return lo + r.intn(hi-lo+1)
}
func (r *rng) f64() float64        { return float64(r.u64()>>11) / float64(1<<53) }
func (r *rng) chance(p float64) bool { return r.f64() < p }
func (r *rng) pick(xs ...int) int  { return xs[r.intn(len(xs))] }
func (r *rng) bytes(n int) []byte {
	b := make([]byte, n)
	for i := range b {
		b[i] = byte(r.u64())
	}
	return b
}
func (r *rng) fork(tag uint64) *rng { return newRng(hash64(r.u64(), tag)) }

func hash64(parts ...uint64) uint64 {
	h := uint64(0x243f6a8885a308d3)
	for _, p := range parts {
		h = mix64(h ^ (p + 0x9e3779b97f4a7c15 + (h << 6) + (h >> 2)))
	}
	return h
}

func hashStr(s string) uint64 {
	h := fnv.New64a()
	h.Write([]byte(s))
	return h.Sum64()
}

// ---------------------------------------------------------------- events

type simEvent struct {
	at   time.Duration
	k1   uint64 // stable tie-break (source id)
	k2   uint64 // stable tie-break (per-source seq)
	name string
	run  func()
	idx  int
}

type evHeap []*simEvent

func (h evHeap) Len() int { return len(h) }
func (h evHeap) Less(i, j int) bool {
	if h[i].at != h[j].at {
		return h[i].at < h[j].at
	}
	if h[i].k1 != h[j].k1 {
		return h[i].k1 < h[j].k1
	}
	return h[i].k2 < h[j].k2
}
func (h evHeap) Swap(i, j int)  { h[i], h[j] = h[j], h[i]; h[i].idx = i; h[j].idx = j }
func (h *evHeap) Push(x any)    { e := x.(*simEvent); e.idx = len(*h); *h = append(*h, e) }
func (h *evHeap) Pop() any      { o := *h; n := len(o); e := o[n-1]; *h = o[:n-1]; return e }

// ---------------------------------------------------------------- sim

type parkedG struct {
	node, site string
	k          int
	ch         chan struct{}
	thaw       time.Duration // "descheduled goroutine" fault: not runnable before this instant
}

func (p *parkedG) id() string { return fmt.Sprintf("%s/%s#%d", p.node, p.site, p.k) }

type traceRec struct {
	Step int    `json:"step"`
	T    int64  `json:"t"`
	What string `json:"what"`
}

type Sim struct {
	start time.Time
	sched *rng
	seed  uint64

	mu        sync.Mutex
	parked    []*parkedG
	parkCount map[string]int
	parkedSig chan struct{}
	events    evHeap
	evSeq     uint64
	quit      chan struct{}
	stopping  bool

	direct atomic.Int32 // >0: driver is calling library code directly; yields pass through

	// goroutine -> node binding: a yield site that has no Memberlist at hand (the per-key
	// decrypt loop) takes its node from the last named site / transport call of the same
	// goroutine, so that two nodes decrypting at the same instant get distinct stable ids
	goNode sync.Map // goid (uint64) -> node name

	yieldAll   bool
	yieldSites map[string]bool // active sites when !yieldAll
	bindOn     bool            // goroutine->node binding wanted (set once yield sites are configured)
	keyringOn  bool            // park at the Keyring entry/exit yields (C17K)

	Steps    int
	MaxSteps int
	hash     uint64
	fpHash   uint64 // coarse fingerprint: sequence of (kind,node,site) without k / times
	trace    []traceRec
	keepTrace bool
	traceCap int

	onStep func() // invariants at each quiescent point (driver goroutine)
	holdEvents bool // when set, step() releases parked goroutines only

	siteHits map[string]int64
	overrun  bool

	// descheduled-goroutine fault: a goroutine that parks at one of freezeSites stays
	// parked (while virtual time may pass) for up to freezeMax with probability freezeProb
	freezeSites map[string]bool
	freezeProb  float64
	freezeMax   time.Duration
	freezeUntil time.Duration // 0 = no limit
	frozen      int64
}

var curSim atomic.Pointer[Sim]

func newSim(seed uint64) *Sim {
	s := &Sim{
		start:     time.Now(),
		seed:      seed,
		sched:     newRng(hash64(seed, 0x5c4ed)),
		parkCount: map[string]int{},
		parkedSig: make(chan struct{}, 1),
		quit:      make(chan struct{}),
		MaxSteps:  2_000_000,
		siteHits:  map[string]int64{},
		traceCap:  400,
		yieldAll:  true,
	}
	curSim.Store(s)
	verifYieldFn = func(site, node string) {
		if cs := curSim.Load(); cs != nil {
			cs.yield(site, node)
		}
	}
	return s
}

func (s *Sim) Now() time.Duration { return time.Since(s.start) }

func (s *Sim) siteActive(site string) bool {
	if site == "keyring" {
		// entry/exit of every Keyring method: only where a scenario asks for it (it is hit
		// twice per inbound packet of an encrypted cluster)
		return s.keyringOn
	}
	if s.yieldAll {
		return true
	}
	if i := strings.IndexByte(site, ':'); i >= 0 {
		site = site[:i]
	}
	return s.yieldSites[site]
}

// curGoid parses the id of the calling goroutine from its stack header.
func curGoid() uint64 {
	var buf [40]byte
	n := runtime.Stack(buf[:], false)
	// "goroutine 123 ["
	var id uint64
	for i := len("goroutine "); i < n; i++ {
		c := buf[i]
		if c < '0' || c > '9' {
			break
		}
		id = id*10 + uint64(c-'0')
	}
	return id
}

// bindGoroutine records that the calling goroutine works for node.
func (s *Sim) bindGoroutine(node string) {
	if node != "" && s.bindOn {
		s.goNode.Store(curGoid(), node)
	}
}

// yield parks the calling goroutine until the driver releases it.
func (s *Sim) yield(site, node string) {
	if s.direct.Load() > 0 {
		return
	}
	if s.bindOn {
		if node != "" {
			s.goNode.Store(curGoid(), node)
		} else if v, ok := s.goNode.Load(curGoid()); ok {
			node = v.(string)
		}
	}
	if !s.siteActive(site) {
		return
	}
	g := &parkedG{node: node, site: site, ch: make(chan struct{})}
	s.mu.Lock()
	if s.stopping {
		s.mu.Unlock()
		return
	}
	key := node + "/" + site
	g.k = s.parkCount[key]
	s.parkCount[key] = g.k + 1
	if s.freezeProb > 0 {
		base := site
		if i := strings.IndexByte(site, ':'); i >= 0 {
			base = site[:i]
		}
		if s.freezeSites[base] && (s.freezeUntil == 0 || s.Now() < s.freezeUntil) {
			h := hash64(s.seed, 0xf2ee2e, hashStr(key), uint64(g.k))
			if float64(h%100000)/100000 < s.freezeProb && s.freezeMax > 0 {
				g.thaw = s.Now() + 1 + time.Duration((h>>24)%uint64(s.freezeMax))
				s.frozen++
			}
		}
	}
	s.parked = append(s.parked, g)
	if i := strings.IndexByte(site, ':'); i >= 0 {
		s.siteHits[site[:i]]++
	} else {
		s.siteHits[site]++
	}
	s.mu.Unlock()
	select {
	case s.parkedSig <- struct{}{}:
	default:
	}
	select {
	case <-g.ch:
	case <-s.quit:
	}
}

// After schedules f to run on the driver goroutine at now+d. (k1,k2) is a stable
// tie-break so that event order never depends on goroutine registration races.
func (s *Sim) After(d time.Duration, k1, k2 uint64, name string, f func()) {
	if d < 0 {
		d = 0
	}
	s.mu.Lock()
	s.evSeq++
	e := &simEvent{at: s.Now() + d, k1: k1, k2: k2, name: name, run: f}
	heap.Push(&s.events, e)
	s.mu.Unlock()
	select {
	case s.parkedSig <- struct{}{}:
	default:
	}
}

func (s *Sim) At(t time.Duration, k1, k2 uint64, name string, f func()) {
	s.After(t-s.Now(), k1, k2, name, f)
}

func (s *Sim) note(kind, what string) {
	now := int64(s.Now())
	s.hash = hash64(s.hash, hashStr(kind), hashStr(what), uint64(now))
	if s.keepTrace || s.traceCap > 0 {
		r := traceRec{Step: s.Steps, T: now, What: kind + " " + what}
		if s.keepTrace || len(s.trace) < s.traceCap {
			s.trace = append(s.trace, r)
		} else {
			copy(s.trace, s.trace[1:])
			s.trace[len(s.trace)-1] = r
		}
	}
}

// Note lets scenario code add its own records to the event log hash.
func (s *Sim) Note(what string) { s.note("n", what) }

// step performs one scheduling decision. It returns false when nothing was
// runnable at the current instant.
func (s *Sim) step() bool {
	s.mu.Lock()
	now := s.Now()
	var due []*simEvent
	// collect due events (all with at<=now); they stay in heap order
	if !s.holdEvents {
		for _, e := range s.events {
			if e.at <= now {
				due = append(due, e)
			}
		}
	}
	// frozen goroutines go to the back and are not candidates
	sort.SliceStable(s.parked, func(i, j int) bool {
		return (s.parked[i].thaw <= now) && !(s.parked[j].thaw <= now)
	})
	np := 0
	for _, g := range s.parked {
		if g.thaw <= now {
			np++
		}
	}
	if np == 0 && len(due) == 0 {
		s.mu.Unlock()
		return false
	}
	sort.Slice(s.parked[:np], func(i, j int) bool {
		a, b := s.parked[i], s.parked[j]
		if a.node != b.node {
			return a.node < b.node
		}
		if a.site != b.site {
			return a.site < b.site
		}
		return a.k < b.k
	})
	sort.Slice(due, func(i, j int) bool {
		a, b := due[i], due[j]
		if a.at != b.at {
			return a.at < b.at
		}
		if a.k1 != b.k1 {
			return a.k1 < b.k1
		}
		return a.k2 < b.k2
	})
	// Events are FIFO among themselves (only the earliest due event is a
	// candidate) so that per-link packet order is decided by delays, not here.
	nc := np
	if len(due) > 0 {
		nc++
	}
	c := s.sched.intn(nc)
	s.Steps++
	progressTick()
	if c < np {
		g := s.parked[c]
		s.parked = append(s.parked[:c], s.parked[c+1:]...)
		s.mu.Unlock()
		s.note("g", g.id())
		s.fpHash = hash64(s.fpHash, hashStr(g.node), hashStr(g.site))
		close(g.ch)
		return true
	}
	e := due[0]
	heap.Remove(&s.events, e.idx)
	s.mu.Unlock()
	s.note("e", e.name)
	s.fpHash = hash64(s.fpHash, hashStr(e.name))
	e.run()
	return true
}

// RunUntil drives the simulation until cond() is true (checked at quiescent
// points) or virtual time reaches `until`. Returns true if cond became true.
func (s *Sim) RunUntil(until time.Duration, cond func() bool) bool {
	for {
		synctest.Wait()
		progressTick()
		if s.onStep != nil {
			s.onStep()
		}
		if cond != nil && cond() {
			return true
		}
		if s.Steps >= s.MaxSteps {
			s.overrun = true
			return false
		}
		if s.step() {
			continue
		}
		now := s.Now()
		if now >= until {
			return false
		}
		wait := until - now
		s.mu.Lock()
		if len(s.events) > 0 {
			if d := s.events[0].at - now; d < wait {
				wait = d
			}
		}
		for _, g := range s.parked {
			if g.thaw > now {
				if d := g.thaw - now; d < wait {
					wait = d
				}
			}
		}
		s.mu.Unlock()
		if wait < 0 {
			wait = 0
		}
		t := time.NewTimer(wait)
		select {
		case <-t.C:
		case <-s.parkedSig:
			t.Stop()
		}
	}
}

// Run advances virtual time by d.
func (s *Sim) Run(d time.Duration) { s.RunUntil(s.Now()+d, nil) }

// Settle runs until nothing is runnable at the current instant.
func (s *Sim) Settle() {
	for {
		synctest.Wait()
		progressTick()
		if s.onStep != nil {
			s.onStep()
		}
		if s.Steps >= s.MaxSteps {
			s.overrun = true
			return
		}
		if !s.step() {
			return
		}
	}
}

// Direct runs f on the driver goroutine with yields disabled (bench mode).
func (s *Sim) Direct(f func()) {
	s.direct.Add(1)
	defer s.direct.Add(-1)
	f()
}

// Go starts a harness client goroutine (inside the bubble).
func (s *Sim) Go(f func()) { go f() }

// Stop releases everything parked and tells harness goroutines to end.
func (s *Sim) Stop() {
	s.mu.Lock()
	s.stopping = true
	ps := s.parked
	s.parked = nil
	s.mu.Unlock()
	close(s.quit)
	_ = ps
}

func (s *Sim) TraceHash() string { return fmt.Sprintf("%016x", s.hash) }
func (s *Sim) Fingerprint() string { return fmt.Sprintf("%016x", s.fpHash) }
