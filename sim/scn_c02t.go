package memberlist

// C02T: the refutation reaches the accuser. One real node with its gossip ticker running and no
// eligible gossip peer (a fresh or isolated instance) is accused by a peer it does not list: the
// accusation arrives piggybacked on that peer's ping. The node must raise its incarnation above the
// accusation AND the alive message carrying it must actually get out: with nobody to gossip to, the
// only vehicle is the acknowledgement of the accuser's next pings. Oracle on the wire tap: one of the
// next acks carries alive{self, incarnation > accusation}.

import (
	"fmt"
	"net"
	"time"
)

func init() {
	register(&Scenario{Name: "C02T", Gen: genC02T, Exec: execC02T})
}

func genC02T(c *Ctx) *Plan {
	r := c.R
	p := &Plan{Cfg: benchCfg(r), P: map[string]int64{}, YieldOff: []string{"*"}}
	p.Cfg.GossipIntervalMs = r.pick(50, 100, 200)
	p.Cfg.ProbeIntervalMs = 1000
	p.Cfg.PushPullMs = 0
	p.P["wait_ticks"] = int64(r.pick(1, 2, 5, 12, 40))
	p.P["acc_off"] = int64(r.pick(0, 0, 1, 7))
	p.P["kind"] = int64(r.intn(2)) // 0 suspect, 1 dead
	p.P["dead_peers"] = int64(r.pick(0, 0, 1, 3))
	return p
}

func execC02T(c *Ctx) {
	p := c.Plan
	b := newBench(c, p.Cfg, true, func(conf *Config) { conf.PushPullInterval = 0 })
	defer b.finish()
	m := b.n.m
	sim := b.sim
	pxIP := net.IPv4(10, 0, 3, 1).To4()
	px := b.addPuppet("px", pxIP)
	from := &net.UDPAddr{IP: pxIP, Port: 7946}
	// members the node only knows as long dead are no gossip targets either
	for i := 0; i < int(p.param("dead_peers", 0)); i++ {
		name := fmt.Sprintf("d%d", i)
		m.aliveNode(&alive{Incarnation: 1, Node: name, Addr: net.IPv4(10, 0, 4, byte(1+i)).To4(), Port: 7946, Vsn: c01Vsn(0)}, nil, false)
		m.deadNode(&dead{Incarnation: 1, Node: name, From: "obs"})
	}
	gi := m.config.GossipInterval
	sim.Run(m.config.GossipToTheDeadTime + 3*gi) // the dead are past gossip-to-the-dead; queue drained
	own := m.incarnation.Load()
	acc := own + uint32(p.param("acc_off", 0))
	var accusation []byte
	if p.param("kind", 0) == 0 {
		accusation = mustEncode(suspectMsg, &suspect{Incarnation: acc, Node: "obs", From: "px"})
	} else {
		accusation = mustEncode(deadMsg, &dead{Incarnation: acc, Node: "obs", From: "px"})
	}
	seq := uint32(100)
	pingBuf := func() []byte {
		seq++
		return mustEncode(pingMsg, &ping{SeqNo: seq, Node: "obs"})
	}
	px.take()
	b.inject(b.wrapPacket(makeCompoundMessage([][]byte{pingBuf(), accusation}).Bytes(), false, false), from)
	if got := m.incarnation.Load(); got <= acc {
		c.Violate("refutation-does-not-outrank", "", "obs", "accused at incarnation %d (own %d): incarnation afterwards is %d", acc, own, got)
		return
	}
	sim.Run(time.Duration(p.param("wait_ticks", 1)) * gi)
	reached := false
	seen := 0
	check := func() {
		for _, pk := range px.take() {
			msgs, err := decodePacket(b.n.conf, pk.Buf)
			if err != nil {
				continue
			}
			for _, wm := range msgs {
				seen++
				if wm.Type != aliveMsg {
					continue
				}
				var a alive
				if decode(wm.Body, &a) == nil && a.Node == "obs" && a.Incarnation > acc {
					reached = true
				}
			}
		}
	}
	check()
	for i := 0; i < 3 && !reached; i++ {
		b.inject(b.wrapPacket(pingBuf(), false, false), from)
		sim.Run(gi / 2)
		check()
	}
	if !reached {
		c.Violate("refutation-never-reaches-accuser", "", "obs", "accused (%s at incarnation %d, own %d) by a peer it does not list, no eligible gossip peer, %d gossip intervals of %v later: none of the acknowledgements of the accuser's next 3 pings carried the refuting alive message (%d messages seen, %d broadcasts still queued)",
			[]string{"suspect", "dead"}[p.param("kind", 0)%2], acc, own, p.param("wait_ticks", 1), gi, seen, m.broadcasts.NumQueued())
		return
	}
	c.Res.Nontrivial = true
	c.Reach("refutation_piggybacked_on_ack")
	c.Res.FP = fmt.Sprintf("%016x", hash64(uint64(p.param("wait_ticks", 1)), uint64(p.param("acc_off", 0)), uint64(p.param("kind", 0)), uint64(p.param("dead_peers", 0)), uint64(p.Cfg.GossipIntervalMs), uint64(p.Cfg.RetransmitMult), uint64(p.Cfg.Encrypt), hashStr(p.Cfg.Label)))
	c.Res.Sample = map[string]any{"wait_ticks": p.param("wait_ticks", 1), "accusation_inc": acc, "own_inc": own, "dead_peers": p.param("dead_peers", 0)}
}
