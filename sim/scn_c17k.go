package memberlist

// C17K: two clients call AddKey / UseKey / RemoveKey / GetKeys on one Keyring concurrently.
// The scheduler interleaves them at the entry and exit of every Keyring method (yield site
// "keyring"), i.e. between any two lock acquisitions. Oracle: linearizability against the
// sequential keyring model - the observed return values and the final ring must equal those of
// at least one merge of the two programs that respects each client's own order.

import (
	"bytes"
	"fmt"
	"strings"
	"testing/synctest"
)

func init() {
	register(&Scenario{Name: "C17K", Gen: genC17K, Exec: execC17K})
}

func genC17K(c *Ctx) *Plan {
	r := c.R
	p := &Plan{P: map[string]int64{}}
	// initial ring: primary + 0-3 further keys out of a pool of 5 valid keys
	var l []int64
	for i := 0; i < r.rangeI(0, 3); i++ {
		l = append(l, int64(r.intn(5)))
	}
	p.Ops = append(p.Ops, Op{Kind: "new", A: int64(r.intn(5)), L: l})
	for cl := 0; cl < 2; cl++ {
		for i := 0; i < r.rangeI(1, 3); i++ {
			kind := []string{"add", "use", "use", "remove", "remove", "get"}[r.intn(6)]
			p.Ops = append(p.Ops, Op{Kind: kind, Node: cl, A: int64(r.intn(5))})
		}
	}
	return p
}

type krOp struct {
	kind string
	key  []byte
}

func krApply(model [][]byte, op krOp) ([][]byte, string) {
	idx := -1
	for i, k := range model {
		if bytes.Equal(k, op.key) {
			idx = i
		}
	}
	switch op.kind {
	case "add":
		if idx < 0 {
			model = append(append([][]byte(nil), model...), op.key)
		}
		return model, "ok"
	case "use":
		if idx < 0 {
			return model, "err"
		}
		nm := [][]byte{model[idx]}
		for i, k := range model {
			if i != idx {
				nm = append(nm, k)
			}
		}
		return nm, "ok"
	case "remove":
		if idx == 0 {
			return model, "err"
		}
		if idx < 0 {
			return model, "ok"
		}
		nm := append([][]byte(nil), model[:idx]...)
		return append(nm, model[idx+1:]...), "ok"
	case "get":
		return model, krString(model)
	}
	return model, "?"
}

func krString(keys [][]byte) string {
	var parts []string
	for _, k := range keys {
		parts = append(parts, fmt.Sprintf("%02x", k[0]))
	}
	return "[" + strings.Join(parts, " ") + "]"
}

func execC17K(c *Ctx) {
	p := c.Plan
	sim := c.Sim
	sim.keyringOn = true
	pool := [][]byte{simKey(16, 0xa1), simKey(16, 0xa2), simKey(24, 0xa3), simKey(32, 0xa4), simKey(16, 0xa5)}
	var init [][]byte
	var progs [2][]krOp
	for _, op := range p.Ops {
		if op.Kind == "new" {
			init = [][]byte{pool[op.A%5]}
			for _, j := range op.L {
				dup := false
				for _, k := range init {
					if bytes.Equal(k, pool[j%5]) {
						dup = true
					}
				}
				if !dup {
					init = append(init, pool[j%5])
				}
			}
			continue
		}
		if op.Node >= 0 && op.Node < 2 {
			progs[op.Node] = append(progs[op.Node], krOp{op.Kind, pool[op.A%5]})
		}
	}
	if len(init) == 0 {
		return
	}
	var kr *Keyring
	sim.Direct(func() {
		k, err := NewKeyring(init[1:], init[0])
		if err != nil {
			panic(err)
		}
		kr = k
	})
	var rets [2][]string
	var done [2]bool
	var panics [2]string
	run := func(cl int) {
		defer func() {
			if r := recover(); r != nil {
				panics[cl] = fmt.Sprint(r)
			}
			done[cl] = true
		}()
		for _, op := range progs[cl] {
			switch op.kind {
			case "add":
				rets[cl] = append(rets[cl], errStr(kr.AddKey(op.key)))
			case "use":
				rets[cl] = append(rets[cl], errStr(kr.UseKey(op.key)))
			case "remove":
				rets[cl] = append(rets[cl], errStr(kr.RemoveKey(op.key)))
			case "get":
				rets[cl] = append(rets[cl], krString(kr.GetKeys()))
			}
		}
	}
	// started one after the other up to their first park, then interleaved by the scheduler
	go run(0)
	synctest.Wait()
	go run(1)
	synctest.Wait()
	sim.Settle()
	if !done[0] || !done[1] {
		c.Violate("keyring-call-hung", "", "", "a Keyring call did not return (client programs %v / %v)", progs[0], progs[1])
		return
	}
	for cl := 0; cl < 2; cl++ {
		if panics[cl] != "" {
			c.Violate("panic", "", "", "Keyring call of client %d panicked: %s", cl, panics[cl])
			return
		}
	}
	var final [][]byte
	sim.Direct(func() { final = kr.GetKeys() })
	// enumerate all merges
	ok := false
	var merges int
	var rec func(i, j int, model [][]byte, r0, r1 []string)
	rec = func(i, j int, model [][]byte, r0, r1 []string) {
		if ok {
			return
		}
		if i == len(progs[0]) && j == len(progs[1]) {
			merges++
			if krString(model) == krString(final) && strings.Join(r0, ",") == strings.Join(rets[0], ",") && strings.Join(r1, ",") == strings.Join(rets[1], ",") {
				ok = true
			}
			return
		}
		if i < len(progs[0]) {
			m2, r := krApply(model, progs[0][i])
			rec(i+1, j, m2, append(append([]string(nil), r0...), r), r1)
		}
		if j < len(progs[1]) {
			m2, r := krApply(model, progs[1][j])
			rec(i, j+1, m2, r0, append(append([]string(nil), r1...), r))
		}
	}
	rec(0, 0, init, nil, nil)
	desc := func(pr []krOp) string {
		var s []string
		for _, o := range pr {
			s = append(s, fmt.Sprintf("%s(%02x)", o.kind, o.key[0]))
		}
		return strings.Join(s, " ")
	}
	if !ok {
		c.Violate("keyring-not-linearizable", "", "", "ring %s; client 0: %s -> %v; client 1: %s -> %v; final ring %s: no sequential order of the two programs (%d merges) gives these results", krString(init), desc(progs[0]), rets[0], desc(progs[1]), rets[1], krString(final), merges)
	}
	var prim []byte
	sim.Direct(func() { prim = kr.GetPrimaryKey() })
	if prim == nil || len(final) == 0 || !bytes.Equal(prim, final[0]) {
		c.Violate("keyring-primary", "", "", "primary key is not the first key of the ring %s", krString(final))
	}
	c.Res.Nontrivial = len(progs[0]) > 0 && len(progs[1]) > 0
	c.Stat("merges", int64(merges))
	c.Res.FP = fmt.Sprintf("%016x", hash64(hashStr(krString(init)+desc(progs[0])+"|"+desc(progs[1])), uint64(sim.Steps)))
	c.Res.Sample = map[string]any{"init": krString(init), "c0": desc(progs[0]), "c1": desc(progs[1]), "final": krString(final)}
}

func errStr(err error) string {
	if err != nil {
		return "err"
	}
	return "ok"
}
