package memberlist

// C04 — no false suspicion in a healthy cluster.

import (
	"fmt"
	"time"
)

func init() {
	register(&Scenario{Name: "C04", Gen: genC04, Exec: execC04})
}

func genC04(c *Ctx) *Plan {
	r := c.R
	p := &Plan{N: r.rangeI(2, 8), Cfg: genCfg(r), P: map[string]int64{}}
	p.Cfg.HandoffDepth = 1024
	n := p.N
	// healthy network: every packet within half the probe timeout, no loss
	p.Net.MinDelay = 1000
	p.Net.MaxDelay = int64(ms(p.Cfg.ProbeTimeoutMs))/2 - 2000
	if pi := int64(ms(p.Cfg.ProbeIntervalMs))/2 - 2000; p.Net.MaxDelay > pi {
		p.Net.MaxDelay = pi // a round trip must also fit the probe interval itself
	}
	if r.chance(0.3) {
		p.Net.MaxDelay = 1_000_000
	}
	p.Net.StreamDelay = p.Net.MaxDelay / 4
	p.Net.StreamFrag = r.chance(0.5)
	t := int64(1000)
	var created []int64
	for i := 0; i < n; i++ {
		t += 1_000_000 + r.i64n(400_000_000)
		p.Ops = append(p.Ops, Op{At: t, Kind: "create", Node: i})
		created = append(created, t)
	}
	end := t + 1_000_000
	// join topology: chain / star / mutual / random, some concurrent
	topo := r.intn(4)
	for i := 1; i < n; i++ {
		jt := t + 1_000_000 + r.i64n(3_000_000_000)
		if r.chance(0.3) {
			jt = t + 5_000_000 // concurrent joins
		}
		var l []int64
		switch topo {
		case 0:
			l = []int64{int64(i - 1)}
		case 1:
			l = []int64{0}
		case 2:
			l = []int64{int64(r.intn(i))}
			if r.chance(0.5) {
				l = append(l, int64(r.intn(n)))
			}
		default:
			l = []int64{int64(r.intn(i)), int64(r.intn(i))}
		}
		p.Ops = append(p.Ops, Op{At: jt, Kind: "join", Node: i, L: l})
		if jt > end {
			end = jt
		}
	}
	if topo == 2 && r.chance(0.5) {
		p.Ops = append(p.Ops, Op{At: t + 2_000_000, Kind: "join", Node: 0, L: []int64{1}})
	}
	// user operations
	dur := int64(time.Duration(r.rangeI(10, 40)) * time.Second)
	nops := r.rangeI(0, 14)
	leavers := map[int]bool{}
	for i := 0; i < nops; i++ {
		at := end + r.i64n(dur)
		node := r.intn(n)
		switch r.intn(6) {
		case 0, 1:
			if !leavers[node] {
				p.Ops = append(p.Ops, Op{At: at, Kind: "update", Node: node, A: 5000, S: fmt.Sprintf("meta-%d-%d", node, i)})
			}
		case 2:
			p.Ops = append(p.Ops, Op{At: at, Kind: "bcast", Node: node, Buf: r.bytes(r.rangeI(1, 60))})
		case 3:
			p.Ops = append(p.Ops, Op{At: at, Kind: "send", Node: node, B: int64(r.intn(n)), Buf: r.bytes(r.rangeI(1, 100))})
		case 4:
			p.Ops = append(p.Ops, Op{At: at, Kind: "sendrel", Node: node, B: int64(r.intn(n)), Buf: r.bytes(r.rangeI(1, 300))})
		case 5:
			if len(leavers) < n-2 && !leavers[node] {
				leavers[node] = true
				p.Ops = append(p.Ops, Op{At: at, Kind: "leave", Node: node, A: 5000})
			}
		}
	}
	// a slow application delegate on one member plus a burst of user messages to it:
	// the packet handler is busy, the listener must keep answering pings
	if r.chance(0.35) && n >= 2 {
		victim := r.intn(n)
		at := end + r.i64n(dur/2)
		p.Ops = append(p.Ops, Op{At: at, Kind: "slowdelegate", Node: victim, A: int64(ms(p.Cfg.ProbeIntervalMs)) * int64(r.pick(1, 2, 4))})
		for k := 0; k < r.rangeI(3, 10); k++ {
			src := r.intn(n)
			if src == victim {
				src = (src + 1) % n
			}
			p.Ops = append(p.Ops, Op{At: at + 1_000_000 + int64(k)*int64(r.pick(1000, 1_000_000, 50_000_000)), Kind: "send", Node: src, B: int64(victim), Buf: r.bytes(r.rangeI(1, 40))})
		}
		p.P["slow_delegate"] = 1
	}
	// no UpdateNode after the same node's Leave (it has nothing to announce)
	leaveAt := map[int]int64{}
	for _, o := range p.Ops {
		if o.Kind == "leave" {
			leaveAt[o.Node] = o.At
		}
	}
	kept := p.Ops[:0]
	for _, o := range p.Ops {
		if lt, ok := leaveAt[o.Node]; ok && o.Kind == "update" && o.At >= lt-int64(6*time.Second) {
			continue
		}
		kept = append(kept, o)
	}
	p.Ops = kept
	p.P["end"] = end + dur + int64(10*time.Second)
	p.YieldOff = genYieldOff(r)
	// node names of varying length: message sizes (and with them block alignment under the
	// padded encryption format, compression outcomes, packet fill) depend on them
	if r.chance(0.5) {
		for i := 0; i < n; i++ {
			b := []byte(fmt.Sprintf("n%d", i))
			for k := r.intn(25); k > 0; k-- {
				b = append(b, byte('a'+r.intn(26)))
			}
			p.Names = append(p.Names, string(b))
		}
		if r.chance(0.5) {
			p.Cfg.ProtocolVersion = 1
			if p.Cfg.Encrypt == 0 {
				p.Cfg.Encrypt = 16
			}
		}
	}
	p.Cfg.AliveDel = r.chance(0.5) // an accepting AliveDelegate: a preemption point if it is ever called without the node lock
	return p
}

type c04mon struct {
	checks int64
}

func (m *c04mon) step(cx *clusterRun) {
	c := cx.c
	leaving := map[string]bool{}
	for i := range cx.leaveT {
		leaving[cx.node(i).name] = true
	}
	for _, n := range cx.cl.nodes {
		if n.m == nil {
			continue
		}
		if sc := n.m.GetHealthScore(); sc != 0 {
			c.Violate("health-nonzero", "", n.name, "%s: health score %d in a healthy cluster", n.name, sc)
		}
		n.m.nodeLock.RLock()
		for name, st := range n.m.nodeMap {
			m.checks++
			if leaving[name] {
				if st.State == StateSuspect || st.State == StateDead {
					c.Violate("leaver-not-left", "", n.name, "%s records leaver %s as %s (must be left)", n.name, name, stateName(st.State))
				}
				continue
			}
			if st.State != StateAlive && !(st.State == StateDead && st.Incarnation == 0) {
				c.Violate("false-suspicion", "", n.name, "%s records responsive member %s as %s@%d", n.name, name, stateName(st.State), st.Incarnation)
			}
		}
		nt := len(n.m.nodeTimers)
		n.m.nodeLock.RUnlock()
		if nt > 0 {
			c.Violate("false-suspicion", "", n.name, "%s has %d suspicion timers", n.name, nt)
		}
		for name, msg := range n.queuedBroadcasts() {
			if len(msg) == 0 {
				continue
			}
			mt := messageType(msg[0])
			if (mt == suspectMsg || mt == deadMsg) && !leaving[name] {
				c.Violate("false-accusation-queued", "", n.name, "%s queued a %v message about responsive member %s", n.name, mt, name)
			}
		}
		n.mu.Lock()
		for _, e := range n.events {
			if e.Kind == "leave" && !leaving[e.Name] {
				c.Violate("false-leave-event", "", n.name, "%s delivered a leave event for %s which never left", n.name, e.Name)
			}
		}
		n.mu.Unlock()
	}
}
func (m *c04mon) finish(cx *clusterRun) { cx.c.Stat("record_checks", m.checks) }

func execC04(c *Ctx) {
	p := c.Plan
	mon := &c04mon{}
	cx := startClusterRun(c, mon, &healthMon{}, newEventMon(), newMonoMon(ms(p.Cfg.GossipToDeadMs)), newSelfMon())
	end := time.Duration(p.param("end", int64(30*time.Second)))
	c.Sim.RunUntil(end, func() bool { return c.Failed() })
	probes := int64(0)
	for k, v := range c.Sim.siteHits {
		if k == "probe" {
			probes += v
		}
	}
	c.Stat("probe_ticks", probes)
	joined := 0
	for _, n := range cx.cl.nodes {
		if n.m != nil && len(n.m.Members()) > 1 {
			joined++
		}
	}
	c.Res.Nontrivial = joined >= 2 && probes > 0
	// UpdateNode / Leave must not time out on a loss-free network (C10 cluster monitor)
	for _, rec := range cx.ops {
		if rec.Op.Kind == "update" {
			if _, left := cx.leaveT[rec.Op.Node]; left {
				continue // shrinking may reorder an update behind a leave
			}
		}
		if (rec.Op.Kind == "update" || rec.Op.Kind == "leave") && rec.Err != "" && rec.Err != "not running" {
			c.Violate("broadcast-notify-timeout", "", fmt.Sprintf("n%d", rec.Op.Node), "%s on n%d failed on a loss-free network: %s", rec.Op.Kind, rec.Op.Node, rec.Err)
		}
	}
	if p.param("slow_delegate", 0) == 1 {
		c.Reach("slow_delegate")
	}
	c.Res.Sample = map[string]any{"n": p.N, "ops": len(p.Ops), "max_delay_us": p.Net.MaxDelay / 1000}
	cx.finish()
}
