package memberlist

// C16 — labels isolate logical clusters.
//   C16  : object (header codec round trip over fragmenting conns) + bench (cross-label injection into a quiescent node)
//   C16C : two logical clusters with different labels on one simulated network, every packet cross-delivered

import (
	"bytes"
	"fmt"
	"io"
	"net"
	"strings"
	"time"
)

func init() {
	register(&Scenario{Name: "C16", Gen: genC16, Exec: execC16})
	register(&Scenario{Name: "C16C", Gen: genC16C, Exec: execC16C})
}

var c16Labels = []string{"", "a", "ab", "b", strings.Repeat("L", 255), strings.Repeat("L", 254) + "M"}

func genC16(c *Ctx) *Plan {
	r := c.R
	cp := benchCfg(r)
	cp.Encrypt = r.pick(0, 0, 16)
	cp.ProtocolVersion = r.pick(2, 5)
	cp.Compression = r.chance(0.5)
	cp.GossipToDeadMs = 3600_000
	cp.TCPTimeoutMs = 300
	p := &Plan{Cfg: cp, P: map[string]int64{}, YieldOff: []string{"*"}}
	p.P["mode"] = int64(r.pick(0, 1, 1))
	p.P["ls"] = int64(r.intn(len(c16Labels)))
	p.P["lr"] = int64(r.intn(len(c16Labels)))
	p.P["skip"] = int64(r.pick(0, 0, 1))
	p.P["lablen"] = int64(1 + (c.Seed-1)%255)
	if off := (c.Seed - 1) % 10_000_000; off < 255 {
		p.P["mode"] = 0 // the first 255 runs of every batch walk all label lengths (complete)
	}
	return p
}

// fragReader delivers a byte string in the given fragment sizes
type fragConn struct {
	net.Conn
	data  []byte
	frags []int
	i     int
}

func (f *fragConn) Read(p []byte) (int, error) {
	if len(f.data) == 0 {
		return 0, io.EOF
	}
	n := len(f.data)
	if f.i < len(f.frags) && f.frags[f.i] < n {
		n = f.frags[f.i]
	}
	f.i++
	if n > len(p) {
		n = len(p)
	}
	if n == 0 {
		n = 1
	}
	copy(p, f.data[:n])
	f.data = f.data[n:]
	return n, nil
}
func (f *fragConn) Close() error { return nil }

func execC16(c *Ctx) {
	p := c.Plan
	mode := int(p.param("mode", 0))
	r := newRng(hash64(c.Seed, 0xc16))
	if mode == 0 {
		// ---- object: header codec round trip
		ll := int(p.param("lablen", 1))
		lb := make([]byte, ll)
		for i := range lb {
			lb[i] = byte('a' + r.intn(26))
			if r.chance(0.1) {
				lb[i] = byte(r.u64())
			}
		}
		label := string(lb)
		payloads := [][]byte{{}, {244}, {244, 0}, {244, 1, 'x'}, {0}, r.bytes(1), r.bytes(300), append([]byte{244, byte(ll)}, lb...), r.bytes(5000)}
		for _, pl := range payloads {
			out, err := AddLabelHeaderToPacket(pl, label)
			if err != nil {
				c.Violate("label-codec", "", "", "AddLabelHeaderToPacket(label len %d): %v", ll, err)
				return
			}
			back, gotLabel, err := RemoveLabelHeaderFromPacket(out)
			if err != nil || gotLabel != label || !bytes.Equal(back, pl) {
				c.Violate("label-codec", "", "", "packet round trip with label length %d, payload %x...: got label len %d, payload equal=%v, err=%v", ll, pl[:min(len(pl), 8)], len(gotLabel), bytes.Equal(back, pl), err)
				return
			}
			// stream: header + payload delivered in fragments
			stream := append(makeLabelHeader(label, nil), pl...)
			hl := 2 + ll
			var fragSets [][]int
			if ll <= 3 {
				// every composition of the first hl+2 bytes (complete)
				k := hl + 2
				if k > len(stream) {
					k = len(stream)
				}
				for mask := 0; mask < 1<<(k-1) && k >= 1; mask++ {
					var fr []int
					run := 1
					for b := 0; b < k-1; b++ {
						if mask&(1<<b) != 0 {
							fr = append(fr, run)
							run = 1
						} else {
							run++
						}
					}
					fr = append(fr, run)
					fragSets = append(fragSets, fr)
				}
				c.Reach("fragmentation_complete")
			} else {
				for t := 0; t < 12; t++ {
					var fr []int
					left := hl + 3
					for left > 0 {
						x := 1 + r.intn(left)
						if r.chance(0.5) {
							x = 1 + r.intn(3)
						}
						fr = append(fr, x)
						left -= x
					}
					fragSets = append(fragSets, fr)
				}
				fragSets = append(fragSets, []int{1, 1, ll, 1}, []int{2, ll}, []int{hl}, []int{hl - 1, 1}, []int{1})
			}
			for _, fr := range fragSets {
				fc := &fragConn{data: append([]byte(nil), stream...), frags: fr}
				cn, gotLabel, err := RemoveLabelHeaderFromStream(fc)
				if err != nil {
					c.Violate("label-codec", "", "", "RemoveLabelHeaderFromStream(label len %d, fragments %v): %v", ll, fr, err)
					return
				}
				rest, _ := io.ReadAll(cn)
				if gotLabel != label || !bytes.Equal(rest, pl) {
					c.Violate("label-codec", "", "", "stream round trip with label length %d, payload %d bytes, fragments %v: label equal=%v, payload equal=%v (got %d bytes)", ll, len(pl), fr, gotLabel == label, bytes.Equal(rest, pl), len(rest))
					return
				}
			}
			// unlabelled stream stays intact, also when it is empty or starts with other bytes
			if len(pl) == 0 || pl[0] != 244 {
				fc := &fragConn{data: append([]byte(nil), pl...), frags: []int{1, 2, 3}}
				cn, gotLabel, err := RemoveLabelHeaderFromStream(fc)
				if err != nil || gotLabel != "" {
					c.Violate("label-codec", "", "", "unlabelled stream (%d bytes): label %q err %v", len(pl), gotLabel, err)
					return
				}
				rest, _ := io.ReadAll(cn)
				if !bytes.Equal(rest, pl) {
					c.Violate("label-codec", "", "", "unlabelled stream altered")
					return
				}
			}
		}
		c.Sim.Stop()
		c.Res.Nontrivial = true
		c.Res.FP = fmt.Sprintf("obj-%d", ll)
		c.Reach("object_roundtrip")
		return
	}
	// ---- bench: cross-label injection
	ls, lr := c16Labels[p.param("ls", 0)], c16Labels[p.param("lr", 0)]
	skip := p.param("skip", 0) == 1
	l := newLab(c, p.Cfg, func(conf *Config, who string) {
		if who == "snd" {
			conf.Label = ls
		} else {
			conf.Label = lr
			conf.SkipInboundLabelCheck = skip
		}
	})
	defer l.finish()
	caps := l.capture()
	acted, ignored := 0, 0
	for _, g := range caps {
		variants := [][]byte{g.Buf}
		// also: header doubled, header stripped
		if ls != "" {
			variants = append(variants, append(makeLabelHeader(ls, nil), g.Buf...), g.Buf[2+len(ls):])
			if lr != "" && lr != ls {
				// the sender's header replaced by the receiver's label (replay across logical clusters)
				variants = append(variants, append(makeLabelHeader(lr, nil), g.Buf[2+len(ls):]...))
			}
		} else if lr != "" {
			variants = append(variants, append(makeLabelHeader(lr, nil), g.Buf...), append(makeLabelHeader(lr, nil), append(makeLabelHeader(lr, nil), g.Buf...)...))
		}
		for vi, v := range variants {
			// what label header does the variant carry?
			hdr := ""
			double := false
			if len(v) >= 2 && v[0] == 244 {
				n := int(v[1])
				if len(v) >= 2+n {
					hdr = string(v[2 : 2+n])
					rest := v[2+n:]
					if len(rest) > 0 && rest[0] == 244 {
						double = true
					}
				}
			}
			mayAct := false
			if skip {
				mayAct = hdr == "" && !double
			} else {
				mayAct = hdr == lr && !double
			}
			labelAdmits := (skip && hdr == "") || (!skip && hdr == lr) // outer header is the receiver's own
			// with encryption the AAD must match too (sender's label vs receiver's)
			if p.Cfg.Encrypt > 0 && ls != lr {
				mayAct = false
			}
			var rc reaction
			if g.Stream {
				rc = l.injectStream(v)
			} else {
				rc = l.injectPacket(v)
			}
			// traffic that carries the receiver's label but fails authentication may get the generic error reply (C14)
			quiet := rc.none() && (rc.Reply == "" || rc.Reply == "none" || (rc.Reply == "error-reply" && labelAdmits))
			if !mayAct {
				if !quiet {
					c.Violate("foreign-label-acted-on", "", "rcv", "genuine %s from a sender labelled %q (variant %d: header %q double=%v) injected into a receiver labelled %q (SkipInboundLabelCheck=%v, enc=%d): %s", g.Kind, trunc(ls), vi, trunc(hdr), double, trunc(lr), skip, p.Cfg.Encrypt, rc.key())
					return
				}
				ignored++
			} else if !quiet {
				acted++
				l.freshR()
			}
		}
	}
	if ls == lr && !skip && acted == 0 {
		c.Violate("own-label-ignored", "", "rcv", "traffic carrying the receiver's own label %q had no effect at all", trunc(lr))
	}
	c.Res.Nontrivial = ignored > 0
	c.Stat("ignored_variants", int64(ignored))
	c.Stat("acted_variants", int64(acted))
	if skip {
		c.Reach("skip_inbound_check")
	}
	c.Res.FP = fmt.Sprintf("%016x", hash64(uint64(p.param("ls", 0)), uint64(p.param("lr", 0)), uint64(boolInt(skip)), uint64(p.Cfg.Encrypt), uint64(boolInt(p.Cfg.Compression)), uint64(p.Cfg.ProtocolVersion)))
	c.Res.Sample = map[string]any{"sender_label": trunc(ls), "receiver_label": trunc(lr), "skip": skip, "ignored": ignored, "acted": acted}
}

func trunc(s string) string {
	if len(s) > 12 {
		return fmt.Sprintf("%s..(%d)", s[:8], len(s))
	}
	return s
}

// ---------------------------------------------------------------- C16C

func genC16C(c *Ctx) *Plan {
	r := c.R
	p := &Plan{N: r.rangeI(4, 7), Cfg: genCfg(r), P: map[string]int64{}}
	p.Cfg.Label = ""
	p.Cfg.HandoffDepth = 1024
	if r.chance(0.5) {
		p.Cfg.Encrypt = 0 // labels must isolate even without encryption
	}
	n := p.N
	split := r.rangeI(2, n-2)
	p.P["split"] = int64(split)
	pairs := [][2]int{{1, 3}, {1, 2}, {2, 1}, {0, 1}, {1, 0}, {4, 5}}
	pr := pairs[r.intn(len(pairs))]
	p.P["la"], p.P["lb"] = int64(pr[0]), int64(pr[1])
	p.Net.MinDelay = 1000
	p.Net.MaxDelay = int64(ms(p.Cfg.ProbeTimeoutMs)) / 8
	t := int64(1000)
	for i := 0; i < n; i++ {
		t += 1_000_000 + r.i64n(200_000_000)
		p.Ops = append(p.Ops, Op{At: t, Kind: "create", Node: i})
	}
	for i := 1; i < split; i++ {
		p.Ops = append(p.Ops, Op{At: t + 1_000_000 + r.i64n(500_000_000), Kind: "join", Node: i, L: []int64{int64(r.intn(i))}})
	}
	for i := split + 1; i < n; i++ {
		p.Ops = append(p.Ops, Op{At: t + 1_000_000 + r.i64n(500_000_000), Kind: "join", Node: i, L: []int64{int64(split + r.intn(i-split))}})
	}
	base := t + 2_000_000_000
	dur := int64(time.Duration(r.rangeI(8, 25)) * time.Second)
	for i := 0; i < r.rangeI(3, 12); i++ {
		at := base + r.i64n(dur)
		a := r.intn(n)
		var b int
		if a < split {
			b = split + r.intn(n-split)
		} else {
			b = r.intn(split)
		}
		switch r.intn(4) {
		case 0:
			p.Ops = append(p.Ops, Op{At: at, Kind: "join", Node: a, L: []int64{int64(b)}, A: 1})
		case 1:
			p.Ops = append(p.Ops, Op{At: at, Kind: "send", Node: a, B: int64(b), Buf: []byte(fmt.Sprintf("FOREIGN-from-n%d", a))})
		case 2:
			p.Ops = append(p.Ops, Op{At: at, Kind: "sendrel", Node: a, B: int64(b), Buf: []byte(fmt.Sprintf("FOREIGN-from-n%d", a))})
		case 3:
			p.Ops = append(p.Ops, Op{At: at, Kind: "bcast", Node: a, Buf: []byte(fmt.Sprintf("BCAST-from-n%d", a))})
		}
	}
	p.P["end"] = base + dur + int64(3*time.Second)
	p.YieldOff = genYieldOff(r)
	return p
}

type c16mon struct {
	split int
}

func (m *c16mon) step(cx *clusterRun) {
	for _, n := range cx.cl.nodes {
		if n.m == nil {
			continue
		}
		mine := n.idx < m.split
		n.m.nodeLock.RLock()
		for name := range n.m.nodeMap {
			var idx int
			fmt.Sscanf(name, "n%d", &idx)
			if (idx < m.split) != mine {
				n.m.nodeLock.RUnlock()
				cx.c.Violate("foreign-member-recorded", "", n.name, "%s (label cluster %v) holds a record of %s which belongs to the other label", n.name, mine, name)
				return
			}
		}
		n.m.nodeLock.RUnlock()
		n.mu.Lock()
		for _, msg := range n.msgs {
			s := string(msg.Buf)
			var from int
			if k, _ := fmt.Sscanf(s, "FOREIGN-from-n%d", &from); k == 1 {
				n.mu.Unlock()
				cx.c.Violate("foreign-payload-delivered", "", n.name, "%s received user payload %q from the other label", n.name, s)
				return
			}
			if k, _ := fmt.Sscanf(s, "BCAST-from-n%d", &from); k == 1 && (from < m.split) != mine {
				n.mu.Unlock()
				cx.c.Violate("foreign-payload-delivered", "", n.name, "%s received broadcast %q from the other label", n.name, s)
				return
			}
		}
		n.mu.Unlock()
	}
}
func (m *c16mon) finish(cx *clusterRun) {}

func execC16C(c *Ctx) {
	p := c.Plan
	split := int(p.param("split", 2))
	la, lb := c16Labels[p.param("la", 1)], c16Labels[p.param("lb", 3)]
	mon := &c16mon{split: split}
	// per-node label: patch Cluster.create via customOp on "create"
	cx := startClusterRun(c, mon, newEventMon(), &healthMon{})
	cx.customOp = func(rec *opRec) bool {
		op := rec.Op
		n := cx.node(op.Node)
		if op.Kind == "create" && n != nil && !n.created {
			lab := la
			if n.idx >= split {
				lab = lb
			}
			if err := cx.cl.create(n, func(conf *Config) { conf.Label = lab }); err != nil {
				rec.Err = err.Error()
			}
			return true
		}
		if op.Kind == "join" && op.A == 1 {
			// cross-label join: must fail
			if n == nil || !n.running() {
				return true
			}
			k, err := n.m.Join(cx.joinAddrs(op.L))
			if k != 0 || err == nil {
				cx.c.Violate("cross-label-join-succeeded", "", n.name, "Join from %s into the other label returned %d, %v", n.name, k, err)
			}
			cx.c.Reach("cross_join_refused")
			return true
		}
		return false
	}
	// cross-deliver every UDP packet to one member of the other label as well
	cross := int64(0)
	cx.cl.net.crossDeliver = func(from *endpoint, buf []byte) []*endpoint {
		if from.idx >= len(cx.cl.nodes) {
			return nil
		}
		var others []*endpoint
		for _, n := range cx.cl.nodes {
			if n.ep != nil && (n.idx < split) != (from.idx < split) && n.running() {
				others = append(others, n.ep)
			}
		}
		if len(others) == 0 {
			return nil
		}
		cross++
		return []*endpoint{others[int(hash64(uint64(from.idx), from.sendSeq)%uint64(len(others)))]}
	}
	end := time.Duration(p.param("end", int64(20*time.Second)))
	c.Sim.RunUntil(end, func() bool { return c.Failed() })
	c.Res.Nontrivial = cross > 20
	c.Stat("cross_delivered_packets", cross)
	c.Res.Sample = map[string]any{"n": p.N, "split": split, "labels": []string{trunc(la), trunc(lb)}, "cross_delivered": cross}
	cx.finish()
}
