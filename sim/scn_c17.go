package memberlist

// C17 (object part) — Keyring histories against a reference model, including
// decryptions that are in flight (parked between keys) while the ring changes.

import (
	"bytes"
	"fmt"
	"testing/synctest"
)

func init() {
	register(&Scenario{Name: "C17", Gen: genC17, Exec: execC17})
}

var c17Pool = [][]byte{
	simKey(16, 10), simKey(16, 20), simKey(24, 30), simKey(32, 40), simKey(16, 50), simKey(32, 60), // valid 0..5
	{}, simKey(15, 70), simKey(33, 80), simKey(1, 90), // invalid 6..9
}

func genC17(c *Ctx) *Plan {
	r := c.R
	p := &Plan{P: map[string]int64{}}
	// initial ring
	switch r.intn(4) {
	case 0: // empty
		p.Ops = append(p.Ops, Op{Kind: "new"})
	case 1:
		p.Ops = append(p.Ops, Op{Kind: "new", A: int64(r.intn(6)), B: 1})
	default:
		var l []int64
		for i := 0; i < r.rangeI(1, 4); i++ {
			l = append(l, int64(r.intn(7)))
		}
		p.Ops = append(p.Ops, Op{Kind: "new", A: int64(r.intn(7)), B: 1, L: l})
	}
	n := r.rangeI(1, 40)
	for i := 0; i < n; i++ {
		k := int64(r.intn(len(c17Pool)))
		if r.chance(0.8) {
			k = int64(r.intn(6))
		}
		switch x := r.intn(100); {
		case x < 25:
			p.Ops = append(p.Ops, Op{Kind: "add", A: k})
		case x < 40:
			p.Ops = append(p.Ops, Op{Kind: "use", A: k})
		case x < 60:
			p.Ops = append(p.Ops, Op{Kind: "remove", A: k})
		case x < 70:
			p.Ops = append(p.Ops, Op{Kind: "getkeys"})
		case x < 75:
			p.Ops = append(p.Ops, Op{Kind: "getprimary"})
		case x < 87:
			p.Ops = append(p.Ops, Op{Kind: "dec", A: int64(r.intn(8)), B: int64(r.intn(2))})
		default:
			p.Ops = append(p.Ops, Op{Kind: "step", A: int64(r.intn(8))})
		}
	}
	return p
}

type c17dec struct {
	key    []byte
	done   bool
	err    error
	plain  []byte
	want   []byte
	opIdx  int
}

func validKeyLen(k []byte) bool { return len(k) == 16 || len(k) == 24 || len(k) == 32 }

func execC17(c *Ctx) {
	p := c.Plan
	sim := c.Sim
	var kr *Keyring
	var model [][]byte
	type snap struct {
		ret  [][]byte
		copy [][]byte
		op   int
	}
	var snaps []snap
	var decs []*c17dec
	inModel := func(k []byte) int {
		for i, x := range model {
			if bytes.Equal(x, k) {
				return i
			}
		}
		return -1
	}
	protected := func(k []byte) bool {
		for _, d := range decs {
			if !d.done && bytes.Equal(d.key, k) {
				return true
			}
		}
		return false
	}
	checkSnaps := func(i int, what string) bool {
		for _, s := range snaps {
			if len(s.ret) != len(s.copy) {
				continue
			}
			for j := range s.ret {
				if !bytes.Equal(s.ret[j], s.copy[j]) {
					c.Violate("keylist-aliased", "", "", "key list returned by GetKeys() at op #%d was altered by op #%d %s: element %d changed from %x.. to %x..", s.op, i, what, j, s.copy[j][:2], s.ret[j][:2])
					return false
				}
			}
		}
		return true
	}
	checkRing := func(i int, what string) bool {
		got := kr.GetKeys()
		if len(got) != len(model) {
			c.Violate("keyring-model", "", "", "after op #%d %s: ring has %d keys, model %d", i, what, len(got), len(model))
			return false
		}
		for j := range got {
			if !bytes.Equal(got[j], model[j]) {
				c.Violate("keyring-model", "", "", "after op #%d %s: key %d differs from model (primary must be first, order of the others preserved)", i, what, j)
				return false
			}
			if !validKeyLen(got[j]) {
				c.Violate("keyring-invalid-key", "", "", "after op #%d %s: key %d has invalid length %d", i, what, j, len(got[j]))
				return false
			}
			for k := 0; k < j; k++ {
				if bytes.Equal(got[j], got[k]) {
					c.Violate("keyring-duplicate", "", "", "after op #%d %s: duplicate key at %d and %d", i, what, k, j)
					return false
				}
			}
		}
		pk := kr.GetPrimaryKey()
		if len(model) == 0 && pk != nil || len(model) > 0 && !bytes.Equal(pk, model[0]) {
			c.Violate("keyring-primary", "", "", "after op #%d %s: GetPrimaryKey() is not the first key", i, what)
			return false
		}
		return true
	}
	aad := []byte("aad")
	stepDec := func(sel int) {
		// release one parked decrypt goroutine
		sim.mu.Lock()
		n := len(sim.parked)
		sim.mu.Unlock()
		if n == 0 {
			return
		}
		_ = sel
		sim.step()
		synctest.Wait()
	}
	started, overlapped := 0, 0
	for i, op := range p.Ops {
		what := fmt.Sprintf("%s(%d)", op.Kind, op.A)
		var key []byte
		if int(op.A) < len(c17Pool) && op.A >= 0 {
			key = c17Pool[op.A]
		}
		if op.Kind != "new" && kr == nil {
			kr = &Keyring{}
			kr.init()
		}
		func() {
			defer func() {
				if r := recover(); r != nil {
					c.Violate("panic", "", "", "op #%d %s panicked (ring had %d keys): %v", i, what, len(model), r)
				}
			}()
			switch op.Kind {
			case "new":
				var keys [][]byte
				for _, j := range op.L {
					keys = append(keys, c17Pool[j])
				}
				var prim []byte
				if op.B == 1 {
					prim = key
				}
				k2, err := NewKeyring(keys, prim)
				// model
				wantErr := false
				var ml [][]byte
				if len(keys) > 0 || len(prim) > 0 {
					if len(prim) == 0 || !validKeyLen(prim) {
						wantErr = true
					} else {
						ml = append(ml, prim)
						for _, k := range keys {
							if !validKeyLen(k) {
								wantErr = true
								break
							}
							dup := false
							for _, x := range ml {
								if bytes.Equal(x, k) {
									dup = true
								}
							}
							if !dup {
								ml = append(ml, k)
							}
						}
					}
				}
				if wantErr != (err != nil) {
					c.Violate("keyring-error", "", "", "NewKeyring(%d keys, primary len %d): error=%v, model expects error=%v", len(keys), len(prim), err, wantErr)
					return
				}
				if err != nil {
					kr = &Keyring{}
					kr.init()
					model = nil
				} else {
					kr = k2
					model = ml
				}
			case "add":
				err := kr.AddKey(key)
				if !validKeyLen(key) {
					if err == nil {
						c.Violate("keyring-error", "", "", "AddKey with %d-byte key returned nil", len(key))
					}
					return
				}
				if err != nil {
					c.Violate("keyring-error", "", "", "AddKey(valid key) returned %v", err)
					return
				}
				if inModel(key) < 0 {
					model = append(model, key)
				}
			case "use":
				err := kr.UseKey(key)
				j := inModel(key)
				if (j < 0) != (err != nil) {
					c.Violate("keyring-error", "", "", "UseKey(installed=%v) returned %v", j >= 0, err)
					return
				}
				if j >= 0 {
					nm := [][]byte{model[j]}
					for k, x := range model {
						if k != j {
							nm = append(nm, x)
						}
					}
					model = nm
				}
			case "remove":
				if protected(key) {
					return // keep keys of in-flight decryptions installed (the property's premise)
				}
				err := kr.RemoveKey(key)
				j := inModel(key)
				if j == 0 {
					if err == nil {
						c.Violate("keyring-error", "", "", "RemoveKey(primary) returned nil")
					}
					return
				}
				if j > 0 {
					if err != nil {
						c.Violate("keyring-error", "", "", "RemoveKey(installed non-primary) returned %v", err)
						return
					}
					model = append(append([][]byte(nil), model[:j]...), model[j+1:]...)
				}
				// absent key (incl. empty ring): any error value is fine, nothing changes
			case "getkeys":
				ret := kr.GetKeys()
				cp := make([][]byte, len(ret))
				for j := range ret {
					cp[j] = append([]byte(nil), ret[j]...)
				}
				snaps = append(snaps, snap{ret, cp, i})
			case "getprimary":
			case "dec":
				if len(model) == 0 {
					return
				}
				k := model[int(op.A)%len(model)]
				want := []byte(fmt.Sprintf("msg-%d", i))
				var buf bytes.Buffer
				if err := encryptPayload(encryptionVersion(op.B), k, want, aad, &buf); err != nil {
					panic(err)
				}
				d := &c17dec{key: k, want: want, opIdx: i}
				decs = append(decs, d)
				started++
				msg := buf.Bytes()
				go func() {
					d.plain, d.err = decryptPayload(kr.GetKeys(), msg, aad)
					d.done = true
				}()
				synctest.Wait()
			case "step":
				before := len(model)
				_ = before
				stepDec(int(op.A))
			}
		}()
		if c.Failed() {
			break
		}
		pend := 0
		for _, d := range decs {
			if !d.done {
				pend++
			}
		}
		if pend > 0 && (op.Kind == "add" || op.Kind == "use" || op.Kind == "remove") {
			overlapped++
		}
		if !checkRing(i, what) || !checkSnaps(i, what) {
			break
		}
		for _, d := range decs {
			if d.done && (d.err != nil || !bytes.Equal(d.plain, d.want)) {
				c.Violate("decrypt-failed", "", "", "decryption started at op #%d under a key that stayed installed failed after op #%d %s: err=%v", d.opIdx, i, what, d.err)
				break
			}
		}
		if c.Failed() {
			break
		}
	}
	// finish in-flight decryptions
	for k := 0; k < 1000; k++ {
		synctest.Wait()
		if !sim.step() {
			break
		}
	}
	synctest.Wait()
	if !c.Failed() {
		for _, d := range decs {
			if !d.done {
				c.Res.HarnessErr = "decrypt goroutine never finished"
				c.Res.OK = false
			} else if d.err != nil || !bytes.Equal(d.plain, d.want) {
				c.Violate("decrypt-failed", "", "", "decryption started at op #%d under a key that stayed installed failed: err=%v", d.opIdx, d.err)
				break
			}
		}
	}
	sim.Stop()
	c.Res.Nontrivial = len(p.Ops) >= 3
	c.Stat("decrypts", int64(started))
	if overlapped > 0 {
		c.Reach("ring_changed_while_decrypt_parked")
	}
	if len(snaps) > 0 {
		c.Reach("keylist_snapshots")
	}
	c.Res.FP = fmt.Sprintf("%016x", hashOps(p.Ops))
	c.Res.Sample = map[string]any{"ops": len(p.Ops)}
}
