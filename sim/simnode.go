package memberlist

// Node wrapper, recording delegates and config generation for simulated clusters.

import (
	"bytes"
	"fmt"
	"log"
	"net"
	"sort"
	"strings"
	"sync"
	"sync/atomic"
	"time"
)

// ---------------------------------------------------------------- plan types

type CfgPlan struct {
	ProbeIntervalMs  int  `json:"probe_ms"`
	ProbeTimeoutMs   int  `json:"probe_to_ms"`
	GossipIntervalMs int  `json:"gossip_ms"`
	GossipNodes      int  `json:"gossip_nodes"`
	PushPullMs       int  `json:"pushpull_ms"`
	SuspicionMult    int  `json:"susp_mult"`
	SuspicionMaxMult int  `json:"susp_max_mult"`
	IndirectChecks   int  `json:"indirect"`
	RetransmitMult   int  `json:"retransmit"`
	AwarenessMax     int  `json:"awareness_max"`
	DisableTcpPings  bool `json:"no_tcp_ping,omitempty"`
	GossipToDeadMs   int  `json:"gossip_dead_ms"`
	TCPTimeoutMs     int  `json:"tcp_to_ms"`
	Compression      bool `json:"compress,omitempty"`
	Encrypt          int  `json:"encrypt,omitempty"` // 0 none, 16/24/32 key size
	Label            string `json:"label,omitempty"`
	ProtocolVersion  int  `json:"proto"`
	HandoffDepth     int  `json:"handoff"`
	UDPBuf           int  `json:"udp_buf"`
	ReclaimMs        int  `json:"reclaim_ms,omitempty"`
	VerifyIncoming   bool `json:"verify_in"`
	VerifyOutgoing   bool `json:"verify_out"`
	NewTimeFormat    bool `json:"new_time,omitempty"`
	AliveDel         bool `json:"alive_del,omitempty"` // install an AliveDelegate (accepts everything; a yield point when called without the node lock)
}

type Op struct {
	At   int64  `json:"at,omitempty"` // ns of virtual time (cluster mode)
	Kind string `json:"k"`
	Node int    `json:"n,omitempty"`
	A    int64  `json:"a,omitempty"`
	B    int64  `json:"b,omitempty"`
	C    int64  `json:"c,omitempty"`
	D    int64  `json:"d,omitempty"`
	S    string `json:"s,omitempty"`
	S2   string `json:"s2,omitempty"`
	Buf  []byte `json:"buf,omitempty"`
	L    []int64 `json:"l,omitempty"`
}

type Plan struct {
	Scn      string           `json:"scn"`
	Variant  string           `json:"variant,omitempty"`
	Seed     uint64           `json:"seed"`
	N        int              `json:"n,omitempty"`
	Cfg      CfgPlan          `json:"cfg"`
	Ops      []Op             `json:"ops,omitempty"`
	Net      NetPlan          `json:"net"`
	Names    []string         `json:"names,omitempty"`     // optional node names (default n<i>)
	YieldOff []string         `json:"yield_off,omitempty"` // disabled yield sites ("*" = all)
	P        map[string]int64 `json:"p,omitempty"`
}

func (p *Plan) param(k string, def int64) int64 {
	if v, ok := p.P[k]; ok {
		return v
	}
	return def
}

func ms(n int) time.Duration { return time.Duration(n) * time.Millisecond }

// genCfg draws a swarm-randomised but sane protocol configuration.
func genCfg(r *rng) CfgPlan {
	c := CfgPlan{
		ProbeIntervalMs:  r.pick(200, 500, 1000, 1000, 2000),
		GossipIntervalMs: r.pick(50, 100, 200, 200, 500),
		GossipNodes:      r.rangeI(1, 4),
		PushPullMs:       r.pick(1000, 2000, 3000, 5000),
		SuspicionMult:    r.rangeI(1, 6),
		SuspicionMaxMult: r.rangeI(1, 6),
		IndirectChecks:   r.rangeI(0, 3),
		RetransmitMult:   r.rangeI(1, 4),
		AwarenessMax:     r.rangeI(1, 8),
		DisableTcpPings:  r.chance(0.3),
		GossipToDeadMs:   r.pick(2000, 5000, 15000),
		TCPTimeoutMs:     r.pick(500, 1000, 2000),
		Compression:      r.chance(0.5),
		ProtocolVersion:  r.pick(2, 2, 3, 4, 5, 5),
		HandoffDepth:     r.pick(2, 8, 1024, 1024),
		UDPBuf:           r.pick(512, 1400, 1400, 4096),
		VerifyIncoming:   true,
		VerifyOutgoing:   true,
	}
	c.ProbeTimeoutMs = c.ProbeIntervalMs / r.pick(2, 3, 5)
	if r.chance(0.12) {
		// unusual but legal: probe timeout at or above the probe interval
		c.ProbeTimeoutMs = c.ProbeIntervalMs * r.pick(2, 2, 3, 6) / 2
	}
	if r.chance(0.4) {
		c.Encrypt = r.pick(16, 24, 32)
	}
	if r.chance(0.3) {
		c.Label = []string{"a", "lbl", "cluster-one"}[r.intn(3)]
	}
	return c
}

func simKey(size int, tag byte) []byte {
	k := make([]byte, size)
	for i := range k {
		k[i] = tag + byte(i)
	}
	return k
}

// ---------------------------------------------------------------- recording delegates

type evRec struct {
	Seq   int
	T     time.Duration
	Kind  string // join, leave, update
	Name  string
	Addr  string
	IP    []byte
	Meta  string
	Set   []string // Members-equivalent set captured in the callback ("" unknown)
	SetOK bool
}

type msgRec struct {
	T   time.Duration
	Buf []byte
}

type SimNode struct {
	sim  *Sim
	net  *SimNet
	idx  int
	name string
	ip   net.IP
	port int
	cfgp CfgPlan
	conf *Config
	m    *Memberlist
	ep   *endpoint

	mu      sync.Mutex
	meta    []byte
	events  []evRec
	genStart int // index in events of the first event of the current instance
	evSeq   *int // shared global sequence
	msgs    []msgRec
	merged  []msgRec
	mergedJoin []bool // parallel to merged: the join flag of the exchange
	conflicts []string
	logs    []string
	logCap  int

	inCallback   atomic.Int32
	cbOverlap    atomic.Int32
	userBcast    [][]byte // queue of pending user broadcasts
	bcastLog     []bcastCall
	localState   []byte
	mergeVeto    func(peers []*Node) error
	aliveVeto    func(peer *Node) error
	aliveCalls   atomic.Int64
	pingPayload  []byte
	pingDone     []string

	slowMsg     time.Duration // NotifyMsg blocks this long (slow application delegate)
	gen         int
	leaveGate   chan struct{} // harness-side serialisation of Leave calls (see DESIGN: sync.Mutex is not durable blocking)
	shutGate    chan struct{}
	staleEvents []evRec
	shutAt      time.Duration
	shutM       *Memberlist
	created  bool
	crashed  bool
	leftCalled bool
	leaveInc uint32
	shutCalled bool
	evHook   func(n *SimNode, r *evRec)
	noYieldCb bool
}

type bcastCall struct {
	Overhead, Limit int
	Ret             [][]byte
}

func (n *SimNode) Write(p []byte) (int, error) {
	n.mu.Lock()
	if n.logCap == 0 {
		n.logCap = 300
	}
	if len(n.logs) >= n.logCap {
		copy(n.logs, n.logs[1:])
		n.logs = n.logs[:len(n.logs)-1]
	}
	n.logs = append(n.logs, fmt.Sprintf("%d %s", int64(n.sim.Now()), strings.TrimSpace(string(p))))
	n.mu.Unlock()
	return len(p), nil
}

// --- EventDelegate

func (n *SimNode) snapshotSet() ([]string, bool) {
	m := n.m
	if m == nil {
		return nil, false
	}
	// Caller (library) is expected to hold nodeLock; read m.nodes directly.
	var set []string
	for _, st := range m.nodes {
		if !st.DeadOrLeft() {
			set = append(set, st.Name)
		}
	}
	sort.Strings(set)
	return set, true
}

func (n *SimNode) event(kind string, nd *Node) {
	if c := n.inCallback.Add(1); c > 1 {
		n.cbOverlap.Add(1)
	}
	held := true
	if m := n.m; m != nil && !n.noYieldCb {
		if m.nodeLock.TryLock() {
			// lock was NOT held by the notifier: widen the window so a
			// concurrent callback can be observed.
			m.nodeLock.Unlock()
			held = false
			n.sim.yield("evcb", n.name)
		}
	}
	rec := evRec{T: n.sim.Now(), Kind: kind, Name: nd.Name, Addr: fmt.Sprintf("%s:%d", nd.Addr, nd.Port), IP: append([]byte(nil), nd.Addr...), Meta: string(nd.Meta)}
	if held {
		rec.Set, rec.SetOK = n.snapshotSet()
	}
	n.mu.Lock()
	*n.evSeq++
	rec.Seq = *n.evSeq
	n.events = append(n.events, rec)
	hook := n.evHook
	n.mu.Unlock()
	if hook != nil {
		hook(n, &rec)
	}
	n.inCallback.Add(-1)
}

func (n *SimNode) NotifyJoin(nd *Node)   { n.event("join", nd) }
func (n *SimNode) NotifyLeave(nd *Node)  { n.event("leave", nd) }
func (n *SimNode) NotifyUpdate(nd *Node) { n.event("update", nd) }

// instEvents is the per-instance EventDelegate: callbacks of a previous
// (crashed / shut down) instance of the same node name are recorded apart.
type instEvents struct {
	n   *SimNode
	gen int
}

func (d *instEvents) fwd(kind string, nd *Node) {
	if d.gen != d.n.gen {
		d.n.mu.Lock()
		d.n.staleEvents = append(d.n.staleEvents, evRec{T: d.n.sim.Now(), Kind: kind, Name: nd.Name})
		d.n.mu.Unlock()
		return
	}
	d.n.event(kind, nd)
}
func (d *instEvents) NotifyJoin(nd *Node)   { d.fwd("join", nd) }
func (d *instEvents) NotifyLeave(nd *Node)  { d.fwd("leave", nd) }
func (d *instEvents) NotifyUpdate(nd *Node) { d.fwd("update", nd) }

// --- Delegate

func (n *SimNode) NodeMeta(limit int) []byte {
	n.mu.Lock()
	defer n.mu.Unlock()
	return append([]byte(nil), n.meta...)
}
func (n *SimNode) NotifyMsg(b []byte) {
	n.mu.Lock()
	n.msgs = append(n.msgs, msgRec{n.sim.Now(), append([]byte(nil), b...)})
	slow := n.slowMsg
	n.mu.Unlock()
	if slow > 0 {
		// a slow application callback (legal): the packet handler is busy for a while
		select {
		case <-time.After(slow):
		case <-n.sim.quit:
		}
	}
}
func (n *SimNode) GetBroadcasts(overhead, limit int) [][]byte {
	n.mu.Lock()
	defer n.mu.Unlock()
	var out [][]byte
	used := 0
	rest := n.userBcast[:0:0]
	for _, b := range n.userBcast {
		if used+overhead+len(b) <= limit {
			out = append(out, b)
			used += overhead + len(b)
		} else {
			rest = append(rest, b)
		}
	}
	n.userBcast = rest
	if len(out) > 0 || len(n.bcastLog) < 64 {
		n.bcastLog = append(n.bcastLog, bcastCall{overhead, limit, out})
	}
	return out
}
func (n *SimNode) LocalState(join bool) []byte {
	n.mu.Lock()
	defer n.mu.Unlock()
	return n.localState
}
func (n *SimNode) MergeRemoteState(buf []byte, join bool) {
	n.mu.Lock()
	n.merged = append(n.merged, msgRec{n.sim.Now(), append([]byte(nil), buf...)})
	n.mergedJoin = append(n.mergedJoin, join)
	n.mu.Unlock()
}

// --- Merge / Alive / Conflict / Ping delegates (installed only when wanted)

type mergeDel struct{ n *SimNode }

func (d mergeDel) NotifyMerge(peers []*Node) error {
	if f := d.n.mergeVeto; f != nil {
		return f(peers)
	}
	return nil
}

type aliveDel struct{ n *SimNode }

func (d aliveDel) NotifyAlive(p *Node) error {
	// The library calls this delegate with the node lock held. If a change moves the call
	// outside the lock, the callback becomes a preemption point: the TryLock succeeds only then,
	// so on code that holds the lock nothing is parked (a goroutine parked with the lock held
	// would stall the bubble).
	if m := d.n.m; m != nil && !d.n.noYieldCb {
		if m.nodeLock.TryLock() {
			m.nodeLock.Unlock()
			d.n.sim.yield("alivedel", d.n.name)
		}
	}
	d.n.aliveCalls.Add(1)
	if f := d.n.aliveVeto; f != nil {
		return f(p)
	}
	return nil
}

type conflictDel struct{ n *SimNode }

func (d conflictDel) NotifyConflict(existing, other *Node) {
	d.n.mu.Lock()
	d.n.conflicts = append(d.n.conflicts, fmt.Sprintf("%s %s:%d<-%s:%d", existing.Name, existing.Addr, existing.Port, other.Addr, other.Port))
	d.n.mu.Unlock()
}

type pingDel struct{ n *SimNode }

func (d pingDel) AckPayload() []byte { return d.n.pingPayload }
func (d pingDel) NotifyPingComplete(other *Node, rtt time.Duration, payload []byte) {
	d.n.mu.Lock()
	d.n.pingDone = append(d.n.pingDone, fmt.Sprintf("%s %d %x", other.Name, int64(rtt), payload))
	d.n.mu.Unlock()
}

// ---------------------------------------------------------------- cluster

type Cluster struct {
	sim   *Sim
	net   *SimNet
	nodes []*SimNode
	evSeq int
	plan  *Plan
}

func newCluster(sim *Sim, plan *Plan) *Cluster {
	return &Cluster{sim: sim, net: newSimNet(sim, plan.Net), plan: plan}
}

func nodeIP(idx int) net.IP { return net.IPv4(10, 0, byte(idx/200), byte(1+idx%200)).To4() }

// buildConfig turns a CfgPlan into a *Config for node idx. Intervals are
// perturbed by a few co-prime nanoseconds per node so tick coincidences have
// measure zero.
func (c *Cluster) buildConfig(n *SimNode, cp CfgPlan) *Config {
	conf := DefaultLANConfig()
	conf.Name = n.name
	conf.BindAddr = n.ip.String()
	conf.BindPort = n.port
	conf.AdvertiseAddr = n.ip.String()
	conf.AdvertisePort = n.port
	pert := time.Duration(7 + 13*n.idx)
	if cp.ProbeIntervalMs > 0 {
		conf.ProbeInterval = ms(cp.ProbeIntervalMs) + pert
	} else {
		conf.ProbeInterval = 0
	}
	conf.ProbeTimeout = ms(cp.ProbeTimeoutMs) + pert/2 + 1
	if cp.GossipIntervalMs > 0 {
		conf.GossipInterval = ms(cp.GossipIntervalMs) + pert + 3
	} else {
		conf.GossipInterval = 0
	}
	conf.GossipNodes = cp.GossipNodes
	if cp.PushPullMs > 0 {
		conf.PushPullInterval = ms(cp.PushPullMs) + pert + 11
	} else {
		conf.PushPullInterval = 0
	}
	conf.SuspicionMult = cp.SuspicionMult
	conf.SuspicionMaxTimeoutMult = cp.SuspicionMaxMult
	conf.IndirectChecks = cp.IndirectChecks
	conf.RetransmitMult = cp.RetransmitMult
	conf.AwarenessMaxMultiplier = cp.AwarenessMax
	conf.DisableTcpPings = cp.DisableTcpPings
	conf.GossipToTheDeadTime = ms(cp.GossipToDeadMs)
	conf.TCPTimeout = ms(cp.TCPTimeoutMs) + pert
	conf.EnableCompression = cp.Compression
	conf.ProtocolVersion = uint8(cp.ProtocolVersion)
	conf.HandoffQueueDepth = cp.HandoffDepth
	conf.UDPBufferSize = cp.UDPBuf
	conf.DeadNodeReclaimTime = ms(cp.ReclaimMs)
	conf.GossipVerifyIncoming = cp.VerifyIncoming
	conf.GossipVerifyOutgoing = cp.VerifyOutgoing
	conf.MsgpackUseNewTimeFormat = cp.NewTimeFormat
	conf.Label = cp.Label
	conf.QueueCheckInterval = 30*time.Second + pert
	if cp.Encrypt > 0 {
		kr, err := NewKeyring(nil, simKey(cp.Encrypt, 1))
		if err != nil {
			panic(err)
		}
		conf.Keyring = kr
	}
	conf.Logger = log.New(n, "", 0)
	n.gen++
	n.mu.Lock()
	n.genStart = len(n.events) // the log of this instance begins here
	n.mu.Unlock()
	conf.Events = &instEvents{n, n.gen}
	conf.Delegate = n
	conf.Merge = mergeDel{n}
	if cp.AliveDel {
		conf.Alive = aliveDel{n}
	}
	conf.Conflict = conflictDel{n}
	conf.Ping = pingDel{n}
	conf.DNSConfigPath = "/nonexistent"
	return conf
}

func (c *Cluster) addNode(name string, ip net.IP, cp CfgPlan) *SimNode {
	n := &SimNode{sim: c.sim, net: c.net, idx: len(c.nodes), name: name, ip: ip, port: 7946, cfgp: cp, evSeq: &c.evSeq}
	n.meta = []byte("m0-" + name)
	n.leaveGate = make(chan struct{}, 1)
	n.shutGate = make(chan struct{}, 1)
	c.nodes = append(c.nodes, n)
	return n
}

// create builds the endpoint and the Memberlist. Must run on a client
// goroutine when yields are enabled (Create calls aliveNode).
func (c *Cluster) create(n *SimNode, tweak func(*Config)) error {
	n.ep = c.net.newEndpoint(n.idx, n.name, n.ip, n.port)
	n.conf = c.buildConfig(n, n.cfgp)
	n.conf.Transport = n.ep
	if tweak != nil {
		tweak(n.conf)
	}
	m, err := Create(n.conf)
	if err != nil {
		return err
	}
	n.m = m
	n.created = true
	return nil
}

// crash black-holes the node and (optionally) shuts the instance down.
func (n *SimNode) crash(shutdown bool) {
	n.ep.mu.Lock()
	n.ep.down = true
	n.ep.mu.Unlock()
	n.crashed = true
	if shutdown && n.m != nil {
		n.shutCalled = true
		_ = n.m.Shutdown()
	}
}

func (n *SimNode) running() bool { return n.created && !n.crashed && !n.shutCalled }

func (n *SimNode) memberNames() []string {
	var out []string
	for _, m := range n.m.Members() {
		out = append(out, m.Name)
	}
	sort.Strings(out)
	return out
}

func (n *SimNode) lists(name string) bool {
	n.m.nodeLock.RLock()
	defer n.m.nodeLock.RUnlock()
	st, ok := n.m.nodeMap[name]
	return ok && !st.DeadOrLeft()
}

type recView struct {
	Present bool
	Inc     uint32
	State   NodeStateType
	Addr    string
	Port    uint16
	Meta    string
	Vsn     [6]uint8
	Change  time.Time
}

func (n *SimNode) view(name string) recView {
	n.m.nodeLock.RLock()
	defer n.m.nodeLock.RUnlock()
	return viewLocked(n.m, name)
}

func viewLocked(m *Memberlist, name string) recView {
	st, ok := m.nodeMap[name]
	if !ok {
		return recView{}
	}
	return recView{true, st.Incarnation, st.State, net.IP(st.Addr).String(), st.Port, string(st.Meta), [6]uint8{st.PMin, st.PMax, st.PCur, st.DMin, st.DMax, st.DCur}, st.StateChange}
}

func (v recView) String() string {
	if !v.Present {
		return "absent"
	}
	return fmt.Sprintf("%s@%d %s:%d meta=%q", stateName(v.State), v.Inc, v.Addr, v.Port, v.Meta)
}

func stateName(s NodeStateType) string {
	switch s {
	case StateAlive:
		return "alive"
	case StateSuspect:
		return "suspect"
	case StateDead:
		return "dead"
	case StateLeft:
		return "left"
	}
	return fmt.Sprintf("state%d", int(s))
}

// digest is a full, order-independent digest of a node's membership state.
func (n *SimNode) digest() string {
	m := n.m
	m.nodeLock.RLock()
	defer m.nodeLock.RUnlock()
	var parts []string
	for name := range m.nodeMap {
		v := viewLocked(m, name)
		parts = append(parts, fmt.Sprintf("%s=%s/%v/%d", name, v.String(), v.Vsn, v.Change.UnixNano()))
	}
	sort.Strings(parts)
	var tm []string
	for name := range m.nodeTimers {
		tm = append(tm, name)
	}
	sort.Strings(tm)
	return fmt.Sprintf("%s|T%v|n%d|inc%d", strings.Join(parts, ";"), tm, len(m.nodes), m.incarnation.Load())
}

func (n *SimNode) queuedBroadcasts() map[string][]byte {
	out := map[string][]byte{}
	q := n.m.broadcasts
	q.mu.Lock()
	defer q.mu.Unlock()
	for name, lb := range q.tm {
		out[name] = lb.b.Message()
	}
	return out
}

func (n *SimNode) lastLogs(k int) []string {
	n.mu.Lock()
	defer n.mu.Unlock()
	if len(n.logs) < k {
		k = len(n.logs)
	}
	return append([]string(nil), n.logs[len(n.logs)-k:]...)
}

func bytesEq(a, b []byte) bool { return bytes.Equal(a, b) }
