package memberlist

// C08 — graceful leave is final; names and addresses cannot be hijacked.
//   C08M: ownership matrix (bench), complete grid + random cells
//   C08L: Leave racing accusations (cluster-interleave)

import (
	"fmt"
	"net"
	"os"
	"time"
)

func init() {
	register(&Scenario{Name: "C08M", Gen: genC08M, Exec: execC08M})
	register(&Scenario{Name: "C08L", Gen: genC08L, Exec: execC08L})
}

// grid dimensions
var c08Holder = []string{"alive", "suspect", "dead-recent", "dead-old", "left-recent", "left-old"}
var c08Reclaim = []int{0, 300, 60000}
var c08Addr = []string{"same", "other-ip", "other-port"}
var c08Inc = []int{-1, 0, 1}
var c08Carrier = []string{"direct", "udp", "pushpull"}

func c08GridSize() int {
	return len(c08Holder) * len(c08Reclaim) * len(c08Addr) * len(c08Inc) * len(c08Carrier)
}

func genC08M(c *Ctx) *Plan {
	r := c.R
	p := &Plan{Cfg: benchCfg(r), P: map[string]int64{}, YieldOff: []string{"*"}}
	p.Cfg.GossipToDeadMs = 3600_000
	cell := int((c.Seed - 1) % 10_000_000)
	if cell >= 2*c08GridSize() {
		cell = r.intn(c08GridSize())
		p.P["random_extra"] = 1
		p.P["base"] = int64(r.pick(2, 5, 1<<31))
		p.P["v6"] = int64(r.intn(2))
	} else if cell >= c08GridSize() {
		// the whole grid once more with IPv6 addresses (16-byte forms never collapse to 4 bytes)
		cell -= c08GridSize()
		p.P["base"] = 5
		p.P["v6"] = 1
	} else {
		p.P["base"] = 5
	}
	p.P["cell"] = int64(cell)
	return p
}

func execC08M(c *Ctx) {
	p := c.Plan
	cell := int(p.param("cell", 0))
	idx := func(n int) int { v := cell % n; cell /= n; return v }
	holder := c08Holder[idx(len(c08Holder))]
	reclaim := c08Reclaim[idx(len(c08Reclaim))]
	addrSel := c08Addr[idx(len(c08Addr))]
	incSel := c08Inc[idx(len(c08Inc))]
	carrier := c08Carrier[idx(len(c08Carrier))]
	cp := p.Cfg
	cp.ReclaimMs = reclaim
	b := newBench(c, cp, false, nil)
	defer b.finish()
	m := b.n.m
	base := uint32(p.param("base", 5))
	addrA := net.IPv4(10, 0, 0, 50).To4()
	addrP1 := net.IPv4(10, 0, 0, 60).To4()
	addrOther := net.IPv4(10, 0, 0, 51).To4()
	if p.param("v6", 0) == 1 {
		addrA, addrP1, addrOther = net.ParseIP("fd00::50"), net.ParseIP("fd00::60"), net.ParseIP("fd00::51")
		c.Reach("ipv6_cells")
	}
	m.aliveNode(&alive{Incarnation: 1, Node: "p1", Addr: addrP1, Port: 7946, Vsn: c01Vsn(0)}, nil, false)
	m.aliveNode(&alive{Incarnation: base, Node: "x", Addr: addrA, Port: 7946, Meta: []byte("meta0"), Vsn: c01Vsn(0)}, nil, false)
	switch holder {
	case "suspect":
		m.suspectNode(&suspect{Incarnation: base, Node: "x", From: "p1"})
	case "dead-recent", "dead-old":
		m.deadNode(&dead{Incarnation: base, Node: "x", From: "p1"})
	case "left-recent", "left-old":
		m.deadNode(&dead{Incarnation: base, Node: "x", From: "x"})
	}
	age := 10 * time.Millisecond
	if holder == "dead-old" || holder == "left-old" {
		age = ms(reclaim) + time.Second
	}
	b.sim.Run(age)
	before := b.snap("x")
	if holder == "suspect" && before.view.State != StateSuspect {
		c.Res.HarnessErr = "suspect holder expired during setup"
		c.Res.OK = false
		return
	}
	ca, cport := addrA, uint16(7946)
	switch addrSel {
	case "other-ip":
		ca = addrOther
	case "other-port":
		cport = 7999
	}
	inc := uint32(int64(base) + int64(incSel))
	meta := []byte("meta-new")
	switch carrier {
	case "direct":
		m.aliveNode(&alive{Incarnation: inc, Node: "x", Addr: ca, Port: cport, Meta: meta, Vsn: c01Vsn(0)}, nil, false)
	case "udp":
		raw := mustEncode(aliveMsg, &alive{Incarnation: inc, Node: "x", Addr: ca, Port: cport, Meta: meta, Vsn: c01Vsn(0)})
		b.inject(b.wrapPacket(raw, false, false), &net.UDPAddr{IP: addrP1, Port: 7946})
	case "pushpull":
		m.mergeState([]pushNodeState{{Name: "x", Addr: ca, Port: cport, Meta: meta, Incarnation: inc, State: StateAlive, Vsn: c01Vsn(0)}})
	}
	b.sim.Settle()
	after := b.snap("x")
	what := fmt.Sprintf("holder %s@%d (age %v, reclaim %dms) <- alive inc=%d addr=%s via %s", holder, base, age, reclaim, inc, addrSel, carrier)
	if addrSel == "same" {
		// ordinary precedence; the address trivially stays
		if after.view.Addr != before.view.Addr || after.view.Port != before.view.Port {
			c.Violate("address-changed", "", "obs", "%s: address changed %s:%d -> %s:%d", what, before.view.Addr, before.view.Port, after.view.Addr, after.view.Port)
		}
		if after.nConfl != before.nConfl {
			c.Violate("spurious-conflict", "", "obs", "%s: conflict callback fired for an identical address", what)
		}
		c.Res.Nontrivial = true
		c.Res.FP = fmt.Sprintf("cell%d-%d-%d", p.param("cell", 0), base, p.param("v6", 0))
		return
	}
	accept := false
	switch holder {
	case "left-recent", "left-old":
		accept = true
	case "dead-old":
		accept = reclaim > 0
	case "dead-recent":
		accept = false
	}
	if accept {
		ok := after.view.State == StateAlive && after.view.Addr == ca.String() && after.view.Port == cport && after.view.Inc == inc && after.view.Meta == string(meta)
		evs := b.lastEvents(before.nEvents)
		if !ok || len(evs) != 1 || evs[0].Kind != "join" || evs[0].Addr != fmt.Sprintf("%s:%d", ca, cport) {
			c.Violate("reclaim-refused", "", "obs", "%s: name must be reusable from the new address, got record %s events %v", what, after.view, evKinds(evs))
		}
		if after.nConfl != before.nConfl {
			c.Violate("spurious-conflict", "", "obs", "%s: conflict callback fired on a permitted reclaim", what)
		}
		c.Reach("reclaim_accepted")
	} else {
		if after.view != before.view || after.members != before.members || after.nEvents != before.nEvents {
			c.Violate("address-hijacked", "", "obs", "%s: record changed %s -> %s (events %d -> %d)", what, before.view, after.view, before.nEvents, after.nEvents)
		}
		if after.nConfl != before.nConfl+1 {
			c.Violate("conflict-not-notified", "", "obs", "%s: NotifyConflict fired %d times, expected exactly once", what, after.nConfl-before.nConfl)
		} else {
			want := fmt.Sprintf("x %s:7946<-%s:%d", addrA, ca, cport)
			if got := b.n.conflicts[len(b.n.conflicts)-1]; got != want {
				c.Violate("conflict-wrong-args", "", "obs", "%s: NotifyConflict(%s), expected (%s)", what, got, want)
			}
		}
		c.Reach("conflict_notified")
	}
	c.Res.Nontrivial = true
	c.Res.FP = fmt.Sprintf("cell%d-%d-%d", p.param("cell", 0), base, p.param("v6", 0))
	c.Res.Sample = map[string]any{"cell": what}
}

// ---------------------------------------------------------------- C08L

func genC08L(c *Ctx) *Plan {
	r := c.R
	p := &Plan{N: r.rangeI(2, 5), Cfg: genCfg(r), P: map[string]int64{}}
	p.Cfg.GossipToDeadMs = 3600_000
	p.Cfg.HandoffDepth = 1024
	p.Cfg.PushPullMs = r.pick(1000, 2000)
	n := p.N
	p.Net.MinDelay = 1000
	p.Net.MaxDelay = int64(r.pick(100_000, 2_000_000, 20_000_000))
	if r.chance(0.3) {
		p.Net.Loss = r.f64() * 0.1
		p.Net.Until = 0
	}
	if r.chance(0.3) {
		p.Net.Dup = 0.1
	}
	t := int64(1000)
	for i := 0; i < n; i++ {
		t += 1_000_000 + r.i64n(200_000_000)
		p.Ops = append(p.Ops, Op{At: t, Kind: "create", Node: i})
	}
	for i := 1; i < n; i++ {
		p.Ops = append(p.Ops, Op{At: t + 1_000_000 + r.i64n(1_000_000_000), Kind: "join", Node: i, L: []int64{int64(r.intn(i))}})
	}
	lv := r.intn(n)
	p.P["leaver"] = int64(lv)
	T := t + 2_000_000_000 + r.i64n(3_000_000_000)
	p.P["leave_at"] = T
	to := int64(r.pick(1000, 2000, 5000))
	p.Ops = append(p.Ops, Op{At: T, Kind: "leave", Node: lv, A: to})
	if r.chance(0.5) {
		// second Leave: concurrently, or after the first returned / timed out
		d := int64(r.pick(0, 1000, int(to)*1_000_000+1_000_000, int(to)*1_000_000+500_000_000))
		p.Ops = append(p.Ops, Op{At: T + d, Kind: "leave", Node: lv, A: to})
	}
	// accusations aimed into the Leave window
	k := r.rangeI(0, 5)
	for i := 0; i < k; i++ {
		off := int64(r.pick(-2_000_000, -100_000, -1000, 0, 1, 1000, 100_000))
		kind := []string{"suspect", "suspect", "dead", "alive"}[r.intn(4)]
		from := r.intn(n)
		p.Ops = append(p.Ops, Op{At: T + off, Kind: "accuse", Node: lv, S: kind, A: int64(r.pick(-1, 0, 0, 0, 1)), C: int64(from)})
	}
	if r.chance(0.3) {
		p.Ops = append(p.Ops, Op{At: T + to*1_000_000 + 2_000_000_000, Kind: "shutdown", Node: lv})
	} else if r.chance(0.5) {
		// the application keeps using the departed instance: a metadata update after Leave has
		// nothing to announce (it may fail or time out) and must not bring the node back anywhere
		p.Ops = append(p.Ops, Op{At: T + to*1_000_000 + int64(r.pick(50_000_000, 700_000_000, 2_500_000_000)), Kind: "update", Node: lv, A: int64(r.pick(200, 1000)), S: "meta-after-leave"})
		p.P["update_after_leave"] = 1
	}
	if r.chance(0.35) && n >= 3 && p.Net.Loss == 0 {
		// one peer misses all gossip around the leave (UDP cut, TCP open): it learns of the
		// departure from a push/pull state exchange and must still record "left"
		peer := (lv + 1 + r.intn(n-1)) % n
		p.Cfg.DisableTcpPings = false
		// the TCP fallback must be able to vouch for the leaver while UDP is cut, otherwise the
		// isolated peer rightly declares it failed on its own evidence before it can learn of the leave
		if p.Cfg.ProbeTimeoutMs*2 > p.Cfg.ProbeIntervalMs {
			p.Cfg.ProbeTimeoutMs = p.Cfg.ProbeIntervalMs / 3
		}
		p.Net.Parts = append(p.Net.Parts, Partition{From: T - 500_000_000, To: T + to*1_000_000 + 3_000_000_000, A: []int{peer}, UDP: true, TCP: false})
		p.P["udp_isolated_peer"] = int64(peer)
	}
	p.YieldOff = genYieldOff(r)
	p.Cfg.AliveDel = r.chance(0.5) // an accepting AliveDelegate: a preemption point if it is ever called without the node lock
	return p
}

type c08lmon struct {
	lv        int
	leftSeen  map[int]uint32 // observer idx -> incarnation at which it recorded L left
	res       bool
	// observers that declared L failed on their own evidence after L's process had stopped
	// (Shutdown following the Leave) and before the departure had reached them: they no longer
	// considered L a member when the news arrived, and the library keeps dead at an equal incarnation
	goneDead  map[int]bool
	lastState map[int]NodeStateType
}

var c08dbg = map[string]string{}

func (m *c08lmon) step(cx *clusterRun) {
	L := cx.node(m.lv)
	for _, n := range cx.cl.nodes {
		if n.m == nil {
			continue
		}
		v := n.view(L.name)
		if os.Getenv("VERIF_DEBUG") != "" {
			if s := v.String(); c08dbg[n.name] != s {
				c08dbg[n.name] = s
				fmt.Fprintf(os.Stderr, "DEBUG t=%v %s view of %s: %s\n", cx.c.Sim.Now(), n.name, L.name, s)
			}
		}
		if v.Present {
			if prev, ok := m.lastState[n.idx]; v.State == StateDead && (!ok || prev != StateDead) && !L.running() {
				if _, knewLeft := m.leftSeen[n.idx]; !knewLeft {
					m.goneDead[n.idx] = true
				}
			}
			m.lastState[n.idx] = v.State
		}
		if inc, ok := m.leftSeen[n.idx]; ok {
			if v.Present && (v.State == StateAlive || v.State == StateSuspect) && v.Inc <= inc+0 && !m.res {
				m.res = true
				cx.c.Violate("resurrected", "", n.name, "%s recorded %s as left at incarnation %d and now lists it again (%s)", n.name, L.name, inc, v)
			}
			if v.Present && (v.State == StateAlive || v.State == StateSuspect) && !m.res {
				m.res = true
				cx.c.Violate("resurrected", "", n.name, "%s recorded %s as left (inc %d) and lists it again as %s although it never restarted", n.name, L.name, inc, v)
			}
		} else if v.Present && v.State == StateLeft {
			m.leftSeen[n.idx] = v.Inc
		}
	}
}
func (m *c08lmon) finish(cx *clusterRun) {}

func execC08L(c *Ctx) {
	p := c.Plan
	lv := int(p.param("leaver", 0))
	mon := &c08lmon{lv: lv, leftSeen: map[int]uint32{}, goneDead: map[int]bool{}, lastState: map[int]NodeStateType{}}
	cx := startClusterRun(c, mon, newEventMon(), &healthMon{}, newSelfMon())
	L := cx.node(lv)
	// tap: self-signed dead messages sent by L
	type sent struct {
		t  time.Duration
		to string
	}
	var leaveMsgs []sent
	cx.cl.net.tapFn = func(r *tapRec) {
		if r.From != L.name || r.Stream || !r.Accepted || L.conf == nil {
			return
		}
		msgs, err := decodePacket(L.conf, r.Buf)
		if err != nil {
			return
		}
		for _, wm := range msgs {
			if wm.Type == deadMsg {
				var d dead
				if decode(wm.Body, &d) == nil && d.Node == L.name && d.From == L.name {
					leaveMsgs = append(leaveMsgs, sent{r.T, r.To})
				}
			}
		}
	}
	cx.customOp = func(rec *opRec) bool {
		op := rec.Op
		if op.Kind != "accuse" {
			return false
		}
		if L.m == nil || !L.running() {
			return true
		}
		from := cx.node(int(op.C))
		inc := uint32(int64(L.m.incarnation.Load()) + op.A)
		var raw []byte
		switch op.S {
		case "suspect":
			raw = mustEncode(suspectMsg, &suspect{Incarnation: inc, Node: L.name, From: from.name})
		case "dead":
			raw = mustEncode(deadMsg, &dead{Incarnation: inc, Node: L.name, From: from.name})
		case "alive":
			raw = mustEncode(aliveMsg, &alive{Incarnation: inc, Node: L.name, Addr: L.ip, Port: uint16(L.port), Meta: []byte("stale-meta"), Vsn: L.conf.BuildVsnArray()})
		}
		L.ep.deliverPacket(wrapPacketFor(L, raw, false, false), &net.UDPAddr{IP: from.ip, Port: from.port})
		c.Reach("accusation_" + op.S)
		return true
	}
	T := time.Duration(p.param("leave_at", 0))
	// state at the leave instant
	var listedAtLeave map[int]bool
	c.Sim.RunUntil(T-3*time.Millisecond, func() bool { return c.Failed() })
	listedAtLeave = map[int]bool{}
	for _, n := range cx.cl.nodes {
		if n.idx != lv && n.m != nil && n.lists(L.name) {
			listedAtLeave[n.idx] = true
		}
	}
	lListsPeers := 0
	if L.m != nil {
		lListsPeers = len(L.m.Members()) - 1
	}
	// budget without the retention window: the departed record must still be held (as "left")
	// when the verdict is taken, so reaping (GossipToTheDeadTime = 1 h here) is never reached
	cfgNoGTD := p.Cfg
	cfgNoGTD.GossipToDeadMs = 0
	budget := settleBudget(cfgNoGTD, p.N)
	if budget > 20*time.Minute {
		budget = 20 * time.Minute
	}
	allLeft := func() bool {
		for i := range listedAtLeave {
			n := cx.node(i)
			v := n.view(L.name)
			if v.Present && v.State == StateDead && mon.goneDead[i] {
				continue
			}
			if !v.Present || v.State != StateLeft {
				return false
			}
		}
		return true
	}
	opsDone := func() bool {
		for _, rec := range cx.ops {
			if rec.Op.Kind == "leave" && !rec.Done {
				return false
			}
		}
		return true
	}
	end := cx.lastOpT + 8*time.Second
	c.Sim.RunUntil(end, func() bool { return c.Failed() })
	// (4) Leave returns within its timeout; (1) a nil return means the departure was sent
	okLeave := false
	for _, rec := range cx.ops {
		if rec.Op.Kind != "leave" {
			continue
		}
		if !rec.Done {
			c.Violate("leave-blocked", "", L.name, "Leave(%dms) called at %v has not returned by %v", rec.Op.A, rec.StartT, c.Sim.Now())
			continue
		}
		if d := rec.EndT - rec.StartT; d > time.Duration(rec.Op.A)*time.Millisecond+5*time.Millisecond && rec.Err != "not running" {
			// a second Leave waits for leaveLock held by the first one; allow that
			c.Reach("leave_waited_for_lock")
		}
		if rec.Err == "" {
			okLeave = true
			if lListsPeers > 0 {
				sentBy := false
				for _, s := range leaveMsgs {
					if s.t <= rec.EndT {
						sentBy = true
					}
				}
				if !sentBy {
					c.Violate("leave-returned-without-departure", "", L.name, "Leave() called at %v returned nil at %v while %s listed %d live peers, but no self-signed dead message had been handed to the transport (messages sent so far: %d)", rec.StartT, rec.EndT, L.name, lListsPeers, len(leaveMsgs))
				}
			}
		} else if rec.Err != "not running" {
			c.Reach("leave_error")
			c.Stat("leave_errors", 1)
		}
	}
	_ = opsDone
	if okLeave && !c.Failed() && p.Net.Loss == 0 {
		// (2) every peer that listed L records it left (not dead) within the budget
		c.Sim.RunUntil(c.Sim.Now()+budget, func() bool { return c.Failed() || allLeft() })
		if !c.Failed() {
			for i := range listedAtLeave {
				n := cx.node(i)
				v := n.view(L.name)
				if v.Present && v.State == StateDead && mon.goneDead[i] {
					c.Reach("peer_declared_failure_after_leaver_process_stopped")
					continue
				}
				if (!v.Present || v.State != StateLeft) && v.Inc <= L.leaveInc+8 {
					c.Violate("leave-not-recorded-as-left", "", n.name, "%s listed %s when it left (incarnation %d); %v after a successful Leave it records it as %s, not left", n.name, L.name, L.leaveInc, c.Sim.Now()-T, v)
					break
				}
				// the event log of that peer ends with leave for L
				n.mu.Lock()
				last := ""
				for _, e := range n.events {
					if e.Name == L.name {
						last = e.Kind
					}
				}
				n.mu.Unlock()
				if last != "leave" {
					c.Violate("leave-event-missing", "", n.name, "%s: last event about %s is %q", n.name, L.name, last)
					break
				}
			}
			// the leaver never lists itself again
			if L.m != nil && L.lists(L.name) {
				c.Violate("leaver-lists-itself", "", L.name, "%s lists itself after a successful Leave: %s", L.name, L.view(L.name))
			}
		}
	}
	if _, ok := p.P["udp_isolated_peer"]; ok {
		c.Reach("peer_learns_leave_by_pushpull")
	}
	if p.param("update_after_leave", 0) == 1 && okLeave {
		c.Reach("update_node_after_successful_leave")
	}
	c.Res.Nontrivial = len(listedAtLeave) > 0 && (okLeave || c.Res.Stats["leave_errors"] > 0)
	if os.Getenv("VERIF_DEBUG") != "" {
		for i := range listedAtLeave {
			fmt.Fprintf(os.Stderr, "DEBUG seed=%d peer n%d view of leaver: %s okLeave=%v loss=%v iso=%v\n", c.Seed, i, cx.node(i).view(L.name), okLeave, p.Net.Loss, p.P["udp_isolated_peer"])
		}
	}
	c.Stat("leave_msgs_sent", int64(len(leaveMsgs)))
	c.Res.Sample = map[string]any{"n": p.N, "leaver": lv, "listed_at_leave": len(listedAtLeave), "leave_msgs": len(leaveMsgs)}
	cx.finish()
}
