"""Property table: which scenarios decide which property, run counts per tier, evidence rule text."""

DETERMINISM_SCNS = ["C03", "C04", "C05", "C02I", "C17R", "C13C", "C01L", "C02T"]

FP = ("distinct = distinct executed-schedule fingerprints (hash of the sequence of released yield sites / delivered events, "
      "without times)")

def register(prop):
    prop("C03", [dict(scn="C03", quick=400, thorough=40000)],
         "cluster plans: 3-8 real nodes, swarm-randomised config, loss/dup/delay/heavy-tail/partition/stream-cut among survivors, "
         "victim crashes at a PRNG instant biased into joins and push/pulls; in half of the plans the victim flaps first (forged suspicion, refutation) and 2-6 stale leftovers of that "
         "episode (dead/suspect at the older incarnation) reach survivors during their own suspicion; probe schedule judged from the wire tap and probeIndex (IndirectChecks=0): never self, never "
         "a dead peer, every live peer within 2m-1 probes, and exactly once per pass of the cursor while live set and list order are unchanged; non-trivial = the victim was listed by >=1 survivor "
         "at/after the crash and was removed; " + FP,
         assumptions=["bound B = 2*N*(AwarenessMax*ProbeInterval+ProbeInterval) + AwarenessMax*ProbeInterval + SuspicionMaxTimeoutMult*SuspicionMult*max(1,log10 N)*ProbeInterval, N = number of node names in the plan",
                      "detection clock restarts when a survivor accepts a higher incarnation of the victim that was still in flight"])

    prop("C10", [dict(scn="C10", quick=60000, thorough=3000000, wall_quick=60, wall_thorough=900)],
         "generated operation histories (1-60 ops, thorough up to 600) of QueueBroadcast(named incl. empty name / unique / plain, sizes from a small set so equal "
         "lengths are the norm) / GetBroadcasts(overhead, limit) / Prune / Reset / NumQueued with RetransmitMult 0-5 and a changing NumNodes, checked "
         "operation by operation against a sequential reference model, then drained for conservation; non-trivial = >=2 broadcasts queued and >=1 "
         "hand-out; distinct = distinct operation sequences (hash of the op list)",
         assumptions=["reference retrieval order = tier by tier (fewest transmits), longest first, newest first, while the message plus overhead fits",
                      "retransmit limit = RetransmitMult*ceil(log10(n+1)) with n sampled at each retrieval"])

    prop("C15", [dict(scn="C15", quick=200, thorough=20000, wall_quick=120, wall_thorough=2400), dict(scn="C17R", quick=80, thorough=4000, wall_quick=60, wall_thorough=900)],
         "cluster plans: 3-6 encrypted real nodes (keys 16/24/32, protocol 1-5 i.e. encryption v0/v1, label, compression swarm), GossipVerifyOutgoing on; histories force every send site: "
         "probes, acks, indirect pings + relayed acks + nacks and TCP fallback pings (UDP-only / one-way partition of one node), suspect-piggybacked pings, gossip single and compound, "
         "best-effort and reliable user messages, user broadcasts, UpdateNode, both directions of push/pull, the stream error reply (provoked by a correctly sealed but undecodable "
         "stream), key rotation steps in progress; oracle on EVERY buffer at the tap: packets (after the cleartext label header) open as version|nonce|AES-GCM under the sender's "
         "current primary key with the label as AAD; every stream write is exactly the label header or encryptMsg|len|ciphertext covering the whole write, opened with an independent "
         "stdlib AES-GCM; reach probes per (path, message type) seen sealed; non-trivial = >50 buffers checked; " + FP,
         assumptions=["rotation steps are applied in the documented global order (new key installed everywhere before anyone uses it)"])
    prop("C17", [dict(scn="C17", quick=6000, thorough=400000, wall_quick=90, wall_thorough=1200), dict(scn="C17R", quick=150, thorough=10000, wall_quick=100, wall_thorough=1500), dict(scn="C17K", quick=4000, thorough=300000, wall_quick=40, wall_thorough=400)],
         "object mode: generated histories of NewKeyring/AddKey/UseKey/RemoveKey/GetKeys/GetPrimaryKey over a pool of valid (16/24/32), invalid-length, "
         "duplicate, absent and primary keys on empty and populated rings, interleaved with decryptions that are parked by the scheduler between two keys "
         "of the list they iterate while the ring changes; reference model = ordered list, primary first; every key list ever returned is snapshotted and "
         "re-compared after every later operation; non-trivial = >=3 ops; distinct = distinct op sequences. C17R (cluster): 2-5 encrypted real nodes rotate old->new by the three "
         "documented phases, each phase in a PRNG node order; after EVERY single step every ordered pair exchanges a best-effort and a reliable user message that must be delivered "
         "exactly once; nobody is suspected (C04 monitor), every buffer on the wire opens under the sender's current primary key (C15 tap); in-flight traffic drains between phases only",
         assumptions=["a decryption counts only if its key stays installed for its whole duration (RemoveKey of such a key is skipped by the executor)"])

    prop("C01", [dict(scn="C01", quick=20000, thorough=1500000, wall_quick=100, wall_thorough=1500), dict(scn="C02I", quick=800, thorough=60000, wall_quick=60, wall_thorough=600, only=["rank-regression", "record-vanished"]),
                 dict(scn="C06I", quick=1500, thorough=100000, wall_quick=40, wall_thorough=400, only=["refuted-peer-killed-by-stale-timeout"]),
                 dict(scn="C01L", quick=2500, thorough=150000, wall_quick=50, wall_thorough=600, only=["claims-not-linearizable", "table-corrupt", "panic", "claim-call-hung"])],
         "bench mode: one real node, prior view of member x built from real claims (absent/alive/suspect/dead/left x incarnation in {0,1,2,5,2^31,2^32-3} x address x age vs "
         "DeadNodeReclaimTime), then 1-12 claims (alive/suspect/dead/leave/push-pull entries in all four states; incarnation base-2..base+2; same/other address/port; "
         "meta; valid/short/invalid version vectors; senders incl. the observer and x) delivered by direct call, UDP packet, inside a compound, compressed(+CRC) through the "
         "real ingest pipeline; exact per-claim oracle (stale => record, Members(), events, queued broadcast, timer all bit-identical); non-trivial = the sequence contained "
         "both a stale and a non-stale claim; distinct = distinct (prior, claim sequence) tuples. "
         "C02I (cluster mode): the node's own record under UpdateNode raced by forged suspect/dead/stale-alive claims about itself, interleaved by the scheduler at the "
         "update/alive/suspect/dead yield sites, with the per-step rank-monotonicity monitor on every record (own record included). "
         "C06I (bench): a suspicion timeout whose validation has passed, descheduled before it acts, against a refutation at a higher incarnation: the stale suspicion must not kill the refuted peer. "
         "C01L (bench): 2-3 goroutines apply 1-2 alive/suspect/dead claims each about one member (prior view absent/alive/suspect/dead/left) to one node concurrently, interleaved at the entry of "
         "aliveNode/suspectNode/deadNode and inside every user callback made without the node lock (AliveDelegate, EventDelegate); linearizability with the library itself as sequential "
         "specification: record, Members(), queued broadcast, timer, conflicts and event log must equal those of one of the <=6 merges applied serially to a fresh instance; member-table "
         "structure (one list slot per map entry)",
         assumptions=["claims about the observer itself are C02's subject and not generated here"])

    prop("C04", [dict(scn="C04", quick=300, thorough=30000, wall_quick=120, wall_thorough=1800)],
         "cluster plans: 2-8 real nodes, swarm config, NO loss, every packet/stream segment delivered within [0, ProbeTimeout/2), staggered/concurrent joins "
         "(chain/star/mutual), UpdateNode, user broadcasts/messages, graceful Leave of some members (leavers keep running); invariant at every scheduler "
         "step on every node: no non-leaver record suspect/dead, no suspicion timer, no suspect/dead broadcast queued about a non-leaver, no leave event "
         "for a non-leaver, health score 0; non-trivial = >=2 nodes joined and probes ran; " + FP)
    prop("C05", [dict(scn="C05", quick=150, thorough=8000, wall_quick=150, wall_thorough=2400), dict(scn="C02I", quick=800, thorough=60000, wall_quick=60, wall_thorough=600, only=["update-lost"]),
                 dict(scn="C02T", quick=1500, thorough=100000, wall_quick=40, wall_thorough=400, only=["refutation-never-reaches-accuser"]),
                 dict(scn="C02", quick=8000, thorough=400000, wall_quick=50, wall_thorough=600, only=["refutation-does-not-outrank"])],
         "cluster plans: 3-8 real nodes; faulty phase with loss/dup/delay/heavy-tail, stream cut/stall/refuse, timed partitions (one-way, UDP-only), crash, "
         "same-address restart with reset incarnation and new meta, graceful leave, slow node, UpdateNode; faults stop at T_f; precondition (lists-graph connected) "
         "evaluated from the nodes' tables; oracle: Members() of every live node == live set with owners' latest meta, nobody suspect, within W; "
         "non-trivial = precondition true, >=2 live nodes, >=1 fault fired. C02I (loss-free 2-4 node cluster): when every UpdateNode racing accusations/concurrent updates returned nil, "
         "the node and all peers show the owner's latest metadata within the budget. C02T: the refutation of an isolated node reaches its accuser on an ack. "
         "C02 (bench): every stale or conflicting record about the node itself - by gossip, piggyback or inside push/pull state, at a lower, equal or higher incarnation - is refuted above the claim "
         "(what a restarted node needs for the others to adopt its latest metadata); " + FP,
         assumptions=["W = 3*B(C03) + K*PushPullInterval + GossipToTheDeadTime with ((n-2)/(n-1))^K < 1e-12 (random peer selection makes W a budget, not a protocol constant)"])
    prop("C07", [dict(scn="C07", quick=150, thorough=8000, wall_quick=120, wall_thorough=2400), dict(scn="C04", quick=100, thorough=5000, wall_quick=60, wall_thorough=900),
                 dict(scn="C02I", quick=1500, thorough=100000, wall_quick=60, wall_thorough=600, only=["event-pattern", "event-members-mismatch", "event-set-mismatch", "event-concurrent"]),
                 dict(scn="C01L", quick=2500, thorough=150000, wall_quick=50, wall_thorough=600, only=["events-not-serial", "table-corrupt", "event-concurrent", "claims-not-linearizable"])],
         "the fault-rich cluster histories of C05 (crash/restart/leave/partitions/loss) and the healthy histories of C04 with a recording EventDelegate on every node: "
         "per-member pattern (join update* leave)*, replay of the log == set captured inside each callback (under the node lock) == Members() at every scheduler step "
         "incl. meta, callbacks never overlap; non-trivial as in C05/C04. C02I: UpdateNode raced by accusations about the node: its own metadata in Members() changes only with an update event. "
         "C01L: concurrent claims about one member from 2-3 goroutines: the event log equals that of a sequential order of the claims (no double join, no join for a record Members() never shows); " + FP)

    prop("C02", [dict(scn="C02", quick=20000, thorough=1500000, wall_quick=100, wall_thorough=1500), dict(scn="C02I", quick=1500, thorough=150000, wall_quick=90, wall_thorough=1200, only=["self-not-alive", "incarnation-decreased", "rank-regression", "event-pattern", "event-members-mismatch", "event-set-mismatch", "event-concurrent"]),
                 dict(scn="C02T", quick=1500, thorough=100000, wall_quick=40, wall_thorough=400)],
         "bench mode: one real node accused by puppets: sequences of 1-10 suspect/dead/alive-about-self/push-pull entries (all four states) at incarnation own-1, own, own+1, "
         "own+k, 2^31, 2^32-3, same/different meta, valid/other/short/invalid version vectors, own/foreign address, via direct call, UDP packet, piggybacked on a ping, "
         "interleaved with UpdateNode and waits; after every step: lists itself alive, LocalNode sane, incarnation never decreases; must-refute class => incarnation "
         "strictly above the accusation, alive with exactly that incarnation queued, health +1 (clamped); below-own accusations change nothing; non-trivial = >=1 "
         "refutation; distinct = distinct accusation sequences. Restarts with a lower incarnation than peers remember are exercised by C05's restart ops. "
         "C02I (cluster mode, 2-4 real nodes): 1-3 UpdateNode episodes (optionally two concurrent calls) on one node, each raced by 0-4 forged suspect/dead/stale-alive packets about that "
         "node at own-1..own+5 placed -1ms..+100us around the call; the scheduler orders them at the update/alive/suspect/dead yield sites; per step: lists itself alive, incarnation "
         "and own record never move backwards, events == Members(); at the end every UpdateNode has returned and, when all returned nil, the node and every peer show the latest metadata. "
         "C02T (bench, tickers ON): a node with no eligible gossip peer (fresh / isolated instance, known peers long dead) is accused by a peer it does not list, the accusation piggybacked on that "
         "peer's ping; after 1-40 gossip intervals the refuting alive message must travel on the acknowledgement of one of the accuser's next pings (wire tap)",
         assumptions=["alive-about-self from a foreign address, with a malformed/short version vector is in the may-ignore class (only the unconditional half is checked)",
                      "accusations at the largest representable incarnation are excluded by the statement"])

    prop("C06", [dict(scn="C06", quick=20000, thorough=1500000, wall_quick=100, wall_thorough=1500), dict(scn="C06I", quick=3000, thorough=300000, wall_quick=60, wall_thorough=900)],
         "bench mode: real node knowing m in {1..40} peers (crosses n-2<k both ways), SuspicionMult/SuspicionMaxTimeoutMult 1-8, starts suspecting px (own evidence or another "
         "accuser) at t_s; timed script of 0-10 confirmations (distinct peers, duplicates, the accuser, the observer, the suspect, strangers, lower/higher incarnation) at "
         "instants incl. +-1ns/+-2ms around the minimum, push/pull merges listing the suspect as suspect/dead (hearsay: one confirmation in the observer's own name, never more), stale claims at older "
         "incarnations, optionally refutation (+re-suspicion), third-party dead, leave; reference Lifeguard timer written from the paper; "
         "death instant compared in exact virtual time (tolerance 3ms + 0.1% of the maximum timeout); non-trivial = run reached a verdict; distinct = distinct (config, script) tuples. "
         "C06I: the timeout callback and a refutation (optionally followed by a re-suspicion) delivered -1us..+1us around the timer instant are interleaved by the scheduler at the "
         "susptimeout / susptimeout2 (after the validation, before the action) / alive / dead / suspect yield sites; whatever the order, the refuted peer must end up listed at the refuting incarnation",
         assumptions=["cluster size n for the timeout = number of known nodes incl. observer and suspect", "tolerance covers the library's millisecond floor and its 1/1000 node-scale truncation"])

    prop("C19", [dict(scn="C19", quick=6000, thorough=500000, wall_quick=120, wall_thorough=1800)],
         "bench mode: a real node probes a scripted puppet target with 0-3 scripted helpers (PMax 2-5) and an optional scripted TCP responder; per probe the script decides "
         "which acks/nacks come back (right/foreign/old/future sequence number; from target, helper, stranger; duplicated) and exactly when (around ProbeTimeout, 1us before/after "
         "the awareness-scaled deadline); relay episodes ask the node to probe on a puppet's behalf with the target acking right/wrong/never around ProbeTimeout; "
         "oracle: suspected iff no matching ack before the deadline (computed from what was delivered), relay ack/nack exactly-one rule, fresh sequence numbers, "
         "len(ackHandlers)==0 after the deadline, health score range/direction and exact Lifeguard arithmetic when unambiguous, NotifyPingComplete RTT exact; "
         "non-trivial = >=1 episode judged; distinct = distinct (config, episode scripts)",
         assumptions=["encryption/label/compression are off in this bench (orthogonal; covered by C12/C14/C15)", "events placed exactly at a deadline instant are treated as ambiguous"])

    prop("C08", [dict(scn="C08M", quick=2000, thorough=200000, wall_quick=60, wall_thorough=600), dict(scn="C08L", quick=400, thorough=40000, wall_quick=120, wall_thorough=2400)],
         "C08M (bench): ownership matrix holder{alive,suspect,dead-recent,dead-older-than-reclaim,left-recent,left-old} x DeadNodeReclaimTime{0,300ms,60s} x claimed address{same,other IP,"
         "other port} x claim incarnation{lower,equal,higher} x carrier{direct,UDP,push/pull}: all 486 cells enumerated completely every run, then random cells with other base "
         "incarnations; oracle: address of an alive/suspect/recently-dead holder never changes and NotifyConflict fires exactly once with (existing, other); left => accepted at once "
         "(join event at the new address); dead => iff reclaim time positive and elapsed. C08L (cluster-interleave): 2-5 real nodes, Leave(timeout) at a PRNG instant, optionally twice "
         "(concurrently or later), forged suspect/dead/alive about the leaver (incarnation own-1..own+1) delivered inside the window opened by the two Leave yield sites; oracles: "
         "nil return => a self-signed dead message was handed to the transport by then; every peer that listed the leaver records it left (not dead) within the C05 budget and its log "
         "ends with leave; no resurrection on any node; the leaver never lists itself again; non-trivial = leaver was listed by a peer and Leave ran; " + FP,
         assumptions=["a peer that declares the leaver failed on its own evidence after the leaver's process has stopped (Shutdown following Leave) and before the departure reached it is not required to end at left: it no longer considered the node a member when the news arrived", "GossipToTheDeadTime exceeds the run length in C08L (no reaping of the departed record: SWIM's retention window is not the no-resurrection guarantee)",
                      "no crashes in C08L plans, so every listed peer is live"],
         extra={"grid_cells": 486})

    prop("C18", [dict(scn="C18", quick=8000, thorough=600000, wall_quick=100, wall_thorough=1500), dict(scn="C18C", quick=200, thorough=20000, wall_quick=60, wall_thorough=900)],
         "bench mode: receiver with a generated allowlist (IPv4 nets, IPv4+IPv6, /32 hosts, /16+/12, empty non-nil, nil); member x prior absent/alive/suspect/dead/left at an allowed "
         "address; 1-10 claims whose advertised address is inside / outside / IPv4-mapped IPv6 of inside or outside / 0-, 3-, 5-byte / IPv6 inside or outside, carried by UDP alive "
         "from an allowed or disallowed source, inside a compound, compressed, piggybacked on a ping, as push/pull entries over a real stream (join and anti-entropy) and direct merge, "
         "incl. address-change and reclaim attempts; after every step no Members() entry, event argument or stored record address lies outside every allowed net (independent "
         "containment routine); alive from a disallowed source leaves the full digest unchanged; non-trivial = allowlist configured and >=1 claim had to be rejected; distinct = distinct (list, prior, script). "
         "C18C (cluster): 3-7 real nodes in two subnets, the 10.0.0.0/24 side enforces an allowlist, joins in every direction, gossip and push/pull flowing: at every scheduler step no "
         "allowlisting node stores a record or has delivered an event with an outside address",
         assumptions=["an empty non-nil CIDRsAllowed is treated as 'no allowlist' (that is what the code and the pinned tests do; the doc comment disagrees) - generated, must not panic, nothing else asserted"])

    prop("C14", [dict(scn="C14", quick=1500, thorough=100000, wall_quick=120, wall_thorough=2400), dict(scn="C17K", quick=4000, thorough=200000, wall_quick=40, wall_thorough=300, only=["keyring-not-linearizable"])],
         "bench mode: genuine traffic of every type (ping, indirect ping, ack, nack, alive, suspect, dead, user, compound; user / push-pull / TCP-ping streams) produced by a real sender's "
         "own send pipeline, captured at the tap and injected into a quiescent real receiver (tickers off) as: every single-bit flip of every byte incl. label header, version byte, nonce, "
         "body, tag and stream length prefix (complete enumeration per sampled message); plaintext original; sealed under a foreign / removed / installed-then-removed key or another label; "
         "label stripped/added/doubled; truncations, splices of two ciphertexts, overwrites, extensions; oracle per variant: reaction (membership digest, delegate calls, events, decoded "
         "replies/acks/relays, stream reply class) is NOTHING (a rejected stream may get the generic error reply) or, for modifications of genuine ciphertext only, IDENTICAL to the reaction to the "
         "original - variants that are not sealed under an installed key with the node's label (plaintext, foreign / removed key, ring constructed with the removed key listed twice, other label, "
         "header stripped/added/doubled) must have NO effect; keys 16/24/32, protocol 1/2/5 "
         "(encryption v0/v1), 0-2 extra installed keys, label, compression; non-trivial = >=1 variant judged; distinct = distinct (message type, mode, configuration)",
         assumptions=["reactions are compared on decoded plaintext (nonces differ); receivers are pristine instances re-created after every accepted variant"])

    prop("C13", [dict(scn="C13", quick=1200, thorough=100000, wall_quick=150, wall_thorough=2400), dict(scn="C13C", quick=100, thorough=8000, wall_quick=80, wall_thorough=1200)],
         "bench mode: an attacker endpoint injects into a running real node (tickers off): random bytes (packets and streams); grammar-aware hostile messages (inconsistent compound "
         "counts, nesting to depth 2000, compress-in-compress, odd alive fields, msgpack type confusion, CRC headers, stream-only types on the packet path); every truncation, every "
         "single-byte overwrite (3 values) and every bit flip of the first 12 bytes of genuine packets captured from a real sender; genuine streams cut AND stalled after every byte "
         "offset plus byte mutations; declared Nodes/UserStateLen/UserMsgLen/encrypted-length beyond the caps followed by 200 kB of filler; 140 concurrent stalled push/pulls; hand-off "
         "queue bursts; (thorough) an LZW bomb above the decompression cap; configurations label x encryption x GossipVerifyIncoming x SkipInboundLabelCheck x compression x protocol; "
         "oracles: process survives (worker crash = violation), queues/counters within caps at every step, input that does not decode leaves digest/delegates untouched, oversized "
         "declarations refused within two read-ahead buffers, every server-side connection closed within TCPTimeout, no handler goroutine left, listeners still answer a genuine "
         "ping / TCP ping afterwards; non-trivial = >=1 input injected; distinct = distinct (mode, genuine message, configuration) tuples. C13C (cluster): a healthy encrypted cluster "
         "(C04's plans without leaves) is bombarded every 0.5-50 ms with bit-flipped / truncated / overwritten / spliced copies of its own captured ciphertext and random bytes from spoofed "
         "member addresses; C04's invariants must keep holding at every step (no suspicion, no leave event, health 0), plus event-log, self and health monitors",
         assumptions=["'does not decode' is decided by a harness-side decoder built from the library's own codec functions under the receiver's configuration"])

    prop("C09", [dict(scn="C09J", quick=300, thorough=30000, wall_quick=100, wall_thorough=1500), dict(scn="C09P", quick=500, thorough=40000, wall_quick=150, wall_thorough=2400),
                 dict(scn="C08M", quick=1200, thorough=120000, wall_quick=30, wall_thorough=400, only=["reclaim-refused"])],
         "C09J (cluster, fault-free fragmenting/delayed streams, gossip flowing, all yield sites): a fresh node joins 1-2 hosts of a live 1-6 node cluster; at the instant Join returns the "
         "joiner lists each host and every member the host reported alive (unchanged during the join); with deliveries held and zero virtual time passing, the hosts' handlers finish and "
         "each host lists the joiner. C09P (two real nodes with generated tables of 0-60 entries in all four states, duplicates, self-referential entries; encryption 0/16/32 x compression "
         "x label x join/anti-entropy x user state): the exchange is cut (EOF or reset) after EVERY byte offset of the request and of the reply (complete for streams <= 500 bytes, 160 "
         "boundary-biased offsets otherwise) - the side whose inbound data was incomplete keeps a bit-identical full digest (records, events, queued broadcasts, MergeRemoteState calls) and "
         "the initiator reports failure; merge-delegate veto on either side (join only); generated version 6-tuples with an independent compatibility rule (soundness direction); hearsay: "
         "remote dead/suspect about a locally alive member only starts suspicion and the member stays listed until S_min, remote left removes directly; "
         "C08M (ownership grid, push/pull delivery cells): a member the peer reports alive from a new address must be listed when the local record is left or reclaimable-dead; "
         "non-trivial = a verdict was reached; " + FP,
         extra={"stream_cut_enumeration": "complete per byte offset for streams <= 500 bytes"})

    prop("C16", [dict(scn="C16", quick=1500, thorough=150000, wall_quick=100, wall_thorough=1500), dict(scn="C16C", quick=150, thorough=15000, wall_quick=100, wall_thorough=1500)],
         "C16 object: Add/RemoveLabelHeader{Packet,Stream} round trip for EVERY label length 1-255 (the seed index walks the lengths; complete in every quick run), payloads empty / starting "
         "with the magic byte 244 / embedding a header / 5000 bytes, stream header delivered in every fragmentation of the first header+2 bytes for labels <= 3 bytes (complete) and 17 "
         "boundary-biased fragmentations otherwise; C16 bench: genuine traffic of every type captured from a sender labelled ls (with header doubled / stripped / added) injected into a quiescent "
         "receiver labelled lr, (ls,lr) over {empty,a,ab,b,255 bytes,255 bytes differing in the last byte}^2 x SkipInboundLabelCheck x encryption: reaction must be empty unless the "
         "header rule of the statement admits the traffic; C16C cluster: two logical clusters with different labels on one network, every UDP packet additionally delivered to a member of the "
         "other label, cross-label Join / SendBestEffort / SendReliable / broadcasts: per step no node holds a record of, or delivers a payload from, the other label; cross joins fail; "
         "non-trivial = >=1 foreign variant ignored / >20 cross deliveries; distinct = distinct (label pair, skip, config) tuples / schedule fingerprints",
         extra={"label_lengths_enumerated": "1..255 complete"})

    prop("C11", [dict(scn="C11", quick=600, thorough=60000, wall_quick=120, wall_thorough=2400)],
         "bench mode: real sender and real receiver; swarm over UDPBufferSize {512,1400,4096,16384,65507}, label length {0,1,7,64,255}, encryption off/16/24/32 with v0/v1, compression, "
         "GossipVerifyOutgoing on/off; the sender's queue is loaded per round with 3-700 generated alive broadcasts (many tiny / mixed / near-maximal names+meta) and its delegate with "
         "0-300 user broadcasts of 1-1300 bytes; sends are triggered through every assembly path: gossip tick, probe ping, ack to a ping, indirect ping + nack, relayed ack; oracles: "
         "every buffer the sender hands to the transport is <= UDPBufferSize (label header included); every membership broadcast the queue handed out for a trigger (read off the "
         "per-item transmit counters in-package) is seen by the receiver's handlers - counts beyond 255 included; the multiset of user payloads the sender's delegate handed out equals "
         "what the receiver's delegate got; non-trivial = >=1 packet assembled; distinct = distinct (configuration, queue profile) tuples",
         assumptions=["the receiver's HandoffQueueDepth is raised so that its own (legitimate) overflow drop does not mask sender-side loss"])

    prop("C12", [dict(scn="C12", quick=300, thorough=30000, wall_quick=120, wall_thorough=2400)],
         "cluster plans: 2-3 real nodes with compatible swarm configurations (protocol 1-5 i.e. encryption v0/v1 and CRC, keys 16/24/32, optionally two installed keys with different "
         "primaries per node, compression, label length 0/1/17/255, msgpack time format, node names 1-255 bytes) on a fault-free but fragmenting and reordering network; workload: "
         "SendBestEffort, SendReliable, SendToAddress, delegate broadcasts, push/pull with delegate user state, UpdateNode with meta 0-512 bytes; payload sizes biased to 0, 1, AES-block "
         "boundaries, LZW-dictionary boundaries (255-257, 4095-4097 repeated bytes), incompressible data, UDPBufferSize-40..+1, payloads that look like a label header; oracle: every payload "
         "a delegate receives is byte-identical to one its sender was given for that receiver, each direct message exactly once, MergeRemoteState bytes equal some LocalState, every Members() "
         "entry (address, port, meta, 6-tuple of versions) equals what its owner announced; non-trivial = >=1 user message delivered; " + FP,
         assumptions=["C12 has no schedule in its quantifier: it is decided here by composing the complete real send and receive pipelines of real nodes through the simulated (fragmenting) transport under generated configurations"])

    prop("C20", [dict(scn="C20", quick=300, thorough=30000, wall_quick=150, wall_thorough=2400), dict(scn="C02I", quick=1500, thorough=150000, wall_quick=90, wall_thorough=1200, only=["update-blocked", "goroutine-leak", "api-panic", "panic", "lock-deadlock"])],
         "cluster-interleave plans: 1-4 real nodes under light faults; 20-90 public API calls (Join, Leave x2, Shutdown x2, UpdateNode, Members, NumMembers, LocalNode, GetHealthScore, "
         "SendBestEffort, SendReliable, Ping, ProtocolVersion, user broadcasts) issued by concurrent simulated clients at PRNG instants over every lifecycle stage: joined, leaving (inside the "
         "Leave yield window), left, left-and-reaped (GossipToTheDeadTime 0.5-2 s so virtual time passes it plus a probe wrap), shut down; all yield sites active; oracles: no API panic "
         "(wrappers recover; a panic on a library goroutine kills the worker and is attributed), no call still blocked at the end, Leave within its timeout, second Leave/Shutdown no-ops, "
         "transport.Shutdown exactly once, later than one awareness-scaled probe interval after Shutdown returned: no goroutine of that instance alive, no packet/dial attempts beyond those of "
         "explicit API calls, no membership callback; bubble exit without blocked library goroutines; non-trivial = >10 ops ran. "
         "C02I: UpdateNode (incl. two concurrent calls, timeout 0 = wait for the broadcast) raced by accusations about the node at the update/alive/suspect/dead yield sites: every call returns; " + FP,
         assumptions=["concurrent Leave/Leave and Shutdown/Shutdown are serialised by a harness-side channel gate instead of the library's leaveLock/shutdownLock: testing/synctest cannot treat a goroutine blocked on sync.Mutex as durably blocked, so two overlapping calls would stall the simulator; every other overlap (Leave vs Shutdown, API vs background) is real",
                      "Leave after Shutdown is never generated (documented panic)",
                      "the race detector is not used as an oracle (the scheduler's hand-offs create happens-before edges that hide races)"])

NOT_CLAIMED = {}

SIM_NOTE = ("trusted base: Go runtime + testing/synctest fake clock, the harness (scheduler, SimNet, oracles) under /verif/sim; "
            "assumes the guarded yield sites are the relevant preemption points; seeded search, not proof")

META = {
 "C20": dict(
    level_text="Seeded interleavings of the public API from several simulated clients against the background activity of real nodes at the guarded yield sites, across all lifecycle stages incl. left-and-reaped (reachable only in virtual time); panic/hang/timeout oracles on every call, and post-Shutdown quiescence (goroutines, traffic, callbacks) measured one awareness-scaled probe interval after Shutdown returned.",
    design_ref="DESIGN.md §3 C20", level_note=SIM_NOTE,
    technique="deterministic simulation: seeded API-call interleavings at yield hooks over all lifecycle stages, post-shutdown quiescence oracle in virtual time"),
 "C12": dict(
    level_text="End-to-end composition of the real send pipeline (compress, CRC, encrypt, label; packet and stream) with the real receive pipeline of another real node through a fragmenting, reordering simulated transport, over seeded configurations and boundary-biased payload sizes; byte-for-byte and exactly-once oracles at the delegates and in Members().",
    design_ref="DESIGN.md §3 C12", level_note=SIM_NOTE,
    technique="deterministic simulation: seeded configuration x payload swarm through real nodes over a fragmenting simulated transport, end-to-end byte-equality oracle"),
 "C11": dict(
    level_text="Every packet a real sender assembles from queued broadcasts through each assembly path is measured at the simulated transport against UDPBufferSize and compared, message for message, with what the queue and the delegate handed out and what a real receiver's handlers and delegate saw, over seeded configurations and queue contents incl. >255 piggybacked parts.",
    design_ref="DESIGN.md §3 C11", level_note=SIM_NOTE,
    technique="deterministic simulation (bench mode): seeded queue contents x configurations, wire-size and hand-out/receive conservation oracles at the simulated transport"),
 "C16": dict(
    level_text="Complete enumeration of label lengths and short-header fragmentations for the codec, differential injection of captured genuine traffic across label pairs into a quiescent real node, and seeded mixed-label cluster runs with cross-delivery of every packet and a per-step isolation invariant.",
    design_ref="DESIGN.md §3 C16", level_note=SIM_NOTE,
    technique="deterministic simulation: exhaustive header codec fragmentation (object), cross-label injection (bench), cross-delivering mixed-label clusters with per-step invariant"),
 "C15": dict(
    level_text="Wire-tap oracle over long seeded cluster histories that force every send site incl. error replies, relays, TCP fallback and rotation in progress: every buffer handed to the simulated transport must open as AES-GCM under the sender's current primary key (independent stdlib open). Stronger than scanning for known plaintext; a reach probe per (path, message type) shows which paths a batch exercised.",
    design_ref="DESIGN.md §3 C15", level_note=SIM_NOTE + "; the static 'only caller' argument is another technique and is not claimed",
    technique="deterministic simulation: wire tap over fault-driven cluster histories, independent AES-GCM open of every emitted buffer"),
 "C09": dict(
    level_text="Crash-point enumeration of both directions of real push/pull streams between two real nodes (every byte offset for short streams) with full-digest equality on the side whose inbound data was incomplete, plus seeded joins into live clusters with the mutuality oracle evaluated at the exact virtual instant Join returns while deliveries are held.",
    design_ref="DESIGN.md §3 C09", level_note=SIM_NOTE,
    technique="deterministic simulation: exhaustive stream cut points on real push/pull exchanges (fault enumeration) + seeded live-cluster joins with held deliveries"),
 "C13": dict(
    level_text="Fault enumeration plus seeded search: complete truncation/cut/stall enumeration over captured genuine packets and streams, grammar-aware and random hostile inputs, against a real node in virtual time so that TCPTimeout-bounded clean-up and goroutine/connection leaks are observable; a panic anywhere in library code kills the worker and is attributed to its seed.",
    design_ref="DESIGN.md §3 C13", level_note=SIM_NOTE,
    technique="deterministic simulation (bench mode): hostile-input injection incl. exhaustive truncation / stream cut-and-stall points, resource-cap and leak oracles in virtual time"),
 "C14": dict(
    level_text="Capture-mutate-inject differential on real nodes: each tampered copy of genuine traffic must cause either no observable reaction or exactly the reaction of the original; complete single-bit-flip enumeration per sampled message plus structural and random variants, over seeded configurations.",
    design_ref="DESIGN.md §3 C14", level_note=SIM_NOTE,
    technique="deterministic simulation (bench mode): captured genuine traffic, exhaustive bit-flip / structural mutation, reaction-differential oracle on a quiescent real receiver"),
 "C18": dict(
    level_text="Seeded claim scripts through every admission path (UDP, compound, compressed, piggyback, real push/pull streams, direct merge) against a real node with generated allowlists; invariant checked after every step with an independent containment routine.",
    design_ref="DESIGN.md §3 C18", level_note=SIM_NOTE,
    technique="deterministic simulation (bench mode): seeded admission-path scripts with allowlist invariant after every step"),
 "C08": dict(
    level_text="Complete enumeration of the 486-cell name/address ownership matrix against a real node in virtual time (record age vs reclaim time exact), plus seeded cluster runs in which the scheduler interleaves Leave with forged accusations at the Leave yield sites; oracles over the wire tap (self-signed dead sent before a nil return), peers' records (left, not dead), event logs and a per-step no-resurrection monitor.",
    design_ref="DESIGN.md §3 C08", level_note=SIM_NOTE,
    technique="deterministic simulation: exhaustive ownership grid in bench mode + seeded Leave/accusation interleavings at yield hooks in cluster mode"),
 "C19": dict(
    level_text="Scripted puppets place acks, nacks and TCP replies at exact virtual instants relative to ProbeTimeout and the awareness-scaled deadline; the probe outcome, relay behaviour, handler clean-up and health score are compared with a reference computed from the delivered script.",
    design_ref="DESIGN.md §3 C19", level_note=SIM_NOTE,
    technique="deterministic simulation (bench mode): seeded ack/nack timing scripts in virtual time vs reference probe-outcome and Lifeguard health model"),
 "C06": dict(
    level_text="Exact virtual-time comparison of the instant a real node drops a suspect against a reference Lifeguard timer, for seeded timed confirmation scripts, refutation/re-suspicion interleavings and cluster sizes; virtual time removes the 25 ms fudge of the real-time unit test and makes +-1 ns placements possible.",
    design_ref="DESIGN.md §3 C06", level_note=SIM_NOTE,
    technique="deterministic simulation (bench mode): seeded timed confirmation scripts in virtual time vs reference Lifeguard timer"),
 "C02": dict(
    level_text="Seeded accusation sequences against one real node with an exact per-step oracle (strictly outranking refutation, queued alive carries the new incarnation, health accounting), through direct calls and the packet pipeline; cluster restarts with reset incarnation are covered by C05's convergence oracle.",
    design_ref="DESIGN.md §3 C02", level_note=SIM_NOTE,
    technique="deterministic simulation (bench mode): seeded accusation sequences vs refutation reference; restart histories in cluster mode; wire-tap check that an isolated node's refutation reaches its accuser (C02T)"),
 "C04": dict(
    level_text="Absence-of-event invariant (no suspicion, no accusation queued, no leave event, health 0) evaluated at every scheduler step of seeded healthy-cluster runs in which the delivery latency of every packet is drawn inside the stated bound; exploration over join orders, latency assignments and API interleavings.",
    design_ref="DESIGN.md §3 C04", level_note=SIM_NOTE,
    technique="deterministic simulation: seeded healthy-cluster runs with bounded-latency delivery, per-step invariant"),
 "C05": dict(
    level_text="Bounded-liveness check after a seeded fault phase: once faults stop and the lists-graph is connected, every live node's view must equal the live set (names, addresses, latest meta, nobody suspect) within a budget derived from the configuration.",
    design_ref="DESIGN.md §3 C05", level_note=SIM_NOTE,
    technique="deterministic simulation: seeded fault schedules (loss/dup/delay/partition/crash/restart/leave), convergence-within-budget oracle in virtual time"),
 "C07": dict(
    level_text="History check over recorded EventDelegate logs of every simulated node: pattern per member, replay equals the Members-equivalent set captured atomically inside each callback and equals Members() at every scheduler step, no overlapping callbacks.",
    design_ref="DESIGN.md §3 C07", level_note=SIM_NOTE,
    technique="deterministic simulation: recorded event history vs Members() refinement check at every scheduler step of fault-injected cluster runs; event log of concurrent claim programs vs a serial order (C01L)"),
 "C01": dict(
    level_text="Seeded sequences of membership claims against one real node with an exact per-claim reference (SWIM precedence + permitted reclaim), through direct calls and the real packet ingest pipeline, in virtual time so record age vs reclaim/suspicion timers is exact; the same rank-monotonicity invariant runs as a monitor at every scheduler step of the cluster scenarios (C03/C04/C05). Exploration over thousands of (prior x claim) combinations that the 25 hand-picked unit tests do not reach.",
    design_ref="DESIGN.md §3 C01", level_note=SIM_NOTE,
    technique="deterministic simulation (bench mode): seeded claim sequences vs executable SWIM-precedence reference model; cluster-wide rank-monotonicity monitor; concurrent claim programs interleaved at yield hooks, linearizability against the library applied serially (C01L)"),
 "C17": dict(
    level_text="Keyring operation histories vs a sequential reference model plus scheduler-controlled interleaving of ring mutations with a decryption parked between two keys (the aliasing window), and (cluster part) rotation phases in PRNG node order with probe traffic between every pair at each intermediate step. Exploration fits: the failure needs a particular operation order / interleaving, not a particular value.",
    design_ref="DESIGN.md §3 C17", level_note=SIM_NOTE,
    technique="deterministic simulation: seeded keyring histories vs model with decrypt goroutines parked at a yield hook; seeded rotation interleavings in a simulated cluster"),
 "C10": dict(
    level_text="Generated operation histories against an executable sequential reference model (conservation, exactly-once Finished, size limit, retrieval order, NumQueued) with shrinking to a minimal failing history. The queue has no clock or concurrency of its own (fully mutex-serialised); the property quantifies over histories of a stateful object, which is this family's object-level use.",
    design_ref="DESIGN.md §3 C10", level_note="trusted base: the reference model in sim/scn_c10.go; single caller thread (queue methods are fully serialised by one mutex)",
    technique="deterministic simulation (object mode): seeded operation histories vs reference model, delta-debugged replay"),
 "C03": dict(
    level_text="Seeded exploration of real multi-node clusters in virtual time: every survivor must drop a crashed member and emit a leave event within a bound computed from the documented configuration, under loss/dup/delay/partitions/stream cuts among survivors. Exploration is the right level: the property quantifies over schedules and fault sequences of a timed distributed protocol; thousands of simulated minutes per batch are affordable only in virtual time.",
    design_ref="DESIGN.md §3 C03", level_note=SIM_NOTE,
    technique="deterministic simulation: seeded cluster runs with crash + fault injection, virtual-time bounded-liveness oracle; probe-schedule fairness (once per pass) from the wire tap"),
}
