"""Property table: which scenarios decide which property, run counts per tier, evidence rule text."""

DETERMINISM_SCNS = ["C03"]

FP = ("distinct = distinct executed-schedule fingerprints (hash of the sequence of released yield sites / delivered events, "
      "without times)")

def register(prop):
    prop("C03", [dict(scn="C03", quick=400, thorough=40000)],
         "cluster plans: 3-8 real nodes, swarm-randomised config, loss/dup/delay/heavy-tail/partition/stream-cut among survivors, "
         "victim crashes at a PRNG instant biased into joins and push/pulls; non-trivial = the victim was listed by >=1 survivor "
         "at/after the crash and was removed; " + FP,
         assumptions=["bound B = 2*N*(AwarenessMax*ProbeInterval+ProbeInterval) + AwarenessMax*ProbeInterval + SuspicionMaxTimeoutMult*SuspicionMult*max(1,log10 N)*ProbeInterval, N = number of node names in the plan",
                      "detection clock restarts when a survivor accepts a higher incarnation of the victim that was still in flight"])

NOT_CLAIMED = {}

SIM_NOTE = ("trusted base: Go runtime + testing/synctest fake clock, the harness (scheduler, SimNet, oracles) under /verif/sim; "
            "assumes the guarded yield sites are the relevant preemption points; seeded search, not proof")

META = {
 "C03": dict(
    level_text="Seeded exploration of real multi-node clusters in virtual time: every survivor must drop a crashed member and emit a leave event within a bound computed from the documented configuration, under loss/dup/delay/partitions/stream cuts among survivors. Exploration is the right level: the property quantifies over schedules and fault sequences of a timed distributed protocol; thousands of simulated minutes per batch are affordable only in virtual time.",
    design_ref="DESIGN.md §3 C03", level_note=SIM_NOTE,
    technique="deterministic simulation: seeded cluster runs with crash + fault injection, virtual-time bounded-liveness oracle"),
}
